import RustbusModel.Lemmas.Body
import RustbusModel.Model.BodyRollback
/-!
C15 — Body builder and parser are transactional across push/fail/reset/get histories.
-/
namespace Rustbus.Body
open Rustbus Rustbus.Bytes Rustbus.Wire Rustbus.Marshal Rustbus.Spec.Wire

/-- A push that returns an error leaves no trace: bytes, signature and descriptors are exactly as before. -/
theorem failed_push_no_trace (b : Body) (items : List Item) (h : (push b items).2 = false) :
    (push b items).1 = b := by
  unfold push at *
  cases hp : pushAll b items with
  | none => rfl
  | some b' => simp [hp] at h

/-- The rollback mechanism (`truncate` to the snapshot lengths) restores the snapshot from ANY state that
    merely extends it — which is all a marshaller can do to the three buffers, successful or not. -/
theorem rollback_restores (b d : Body) (h : Extends b d) : rollback b d = b := by
  obtain ⟨hbo, ⟨x, hx⟩, ⟨y, hy⟩, hn⟩ := h
  cases b; cases d
  simp only [rollback] at *
  simp only [Body.mk.injEq]
  subst hbo
  refine ⟨rfl, ?_, ?_, ?_⟩
  · rw [hx]; simp
  · rw [hy]; simp
  · omega

private theorem pushItem_extends (b b' : Body) (it : Item) (h : pushItem b it = some b') : Extends b b' := by
  cases it with
  | plain t v =>
    simp only [pushItem] at h
    cases hm : marshalM b.bo t v b.buf with
    | none => simp [hm] at h
    | some buf' =>
      simp only [hm, Option.some.injEq] at h
      subst h
      rw [marshalM_eq_enc] at hm
      cases he : enc b.bo b.buf.length t v with
      | none => simp [he] at hm
      | some bs =>
        simp only [he, Option.map_some, Option.some.injEq] at hm
        exact ⟨rfl, ⟨bs, hm.symm⟩, ⟨_, rfl⟩, Nat.le_refl _⟩
  | asVariant t v =>
    simp only [pushItem] at h
    cases hm : marshalM b.bo .variant (.variant t v) b.buf with
    | none => simp [hm] at h
    | some buf' =>
      simp only [hm, Option.some.injEq] at h
      subst h
      rw [marshalM_eq_enc] at hm
      cases he : enc b.bo b.buf.length .variant (.variant t v) with
      | none => simp [he] at hm
      | some bs =>
        simp only [he, Option.map_some, Option.some.injEq] at hm
        exact ⟨rfl, ⟨bs, hm.symm⟩, ⟨_, rfl⟩, Nat.le_refl _⟩
  | fd valid =>
    simp only [pushItem] at h
    split at h
    · simp only [Option.some.injEq] at h
      subst h
      exact ⟨rfl, ⟨zeros (padLen 4 b.buf.length) ++ bytesOf b.bo 4 b.nfds, by simp [padTo, List.append_assoc]⟩, ⟨_, rfl⟩, by simp⟩
    · cases h

/-- Every successful push only appends: the previous bytes, signature and descriptors are a prefix of the
    new ones (so earlier parameters are never disturbed, and the snapshot/rollback of a failed multi-push
    restores exactly the state before it). -/
theorem push_only_appends (b b' : Body) (items : List Item) (h : pushAll b items = some b') : Extends b b' := by
  induction items generalizing b with
  | nil =>
    simp only [pushAll, Option.some.injEq] at h
    subst h
    exact ⟨rfl, ⟨[], by simp⟩, ⟨[], by simp⟩, Nat.le_refl _⟩
  | cons it its ih =>
    simp only [pushAll] at h
    cases hp : pushItem b it with
    | none => simp [hp] at h
    | some b1 =>
      simp only [hp] at h
      obtain ⟨e1, ⟨x1, hx1⟩, ⟨y1, hy1⟩, n1⟩ := pushItem_extends b b1 it hp
      obtain ⟨e2, ⟨x2, hx2⟩, ⟨y2, hy2⟩, n2⟩ := ih b1 h
      exact ⟨by rw [e2, e1], ⟨x1 ++ x2, by rw [hx2, hx1, List.append_assoc]⟩,
        ⟨y1 ++ y2, by rw [hy2, hy1, List.append_assoc]⟩, by omega⟩

/-- helper: the dirty body only extends the snapshot -/
private theorem pushDirty_extends (j : Junk) : ∀ (items : List Item) (b : Body), Extends b (pushDirty b j items).1 := by
  intro items
  induction items with
  | nil => intro b; exact ⟨rfl, ⟨[], by simp [pushDirty]⟩, ⟨[], by simp [pushDirty]⟩, Nat.le_refl _⟩
  | cons it its ih =>
    intro b
    simp only [pushDirty]
    cases hp : pushItem b it with
    | none => exact ⟨rfl, ⟨j.bytes, rfl⟩, ⟨j.sig, rfl⟩, Nat.le_add_right _ _⟩
    | some b1 =>
      simp only
      obtain ⟨e1, ⟨x1, hx1⟩, ⟨y1, hy1⟩, n1⟩ := push_only_appends b b1 [it] (by simp [pushAll, hp])
      obtain ⟨e2, ⟨x2, hx2⟩, ⟨y2, hy2⟩, n2⟩ := ih b1
      exact ⟨by rw [e2, e1], ⟨x1 ++ x2, by rw [hx2, hx1, List.append_assoc]⟩,
        ⟨y1 ++ y2, by rw [hy2, hy1, List.append_assoc]⟩, by omega⟩

private theorem pushDirty_ok_iff (j : Junk) : ∀ (items : List Item) (b : Body),
    ((pushDirty b j items).2 = true → pushAll b items = some (pushDirty b j items).1) ∧
    ((pushDirty b j items).2 = false → pushAll b items = none) := by
  intro items
  induction items with
  | nil => intro b; simp [pushDirty, pushAll]
  | cons it its ih =>
    intro b
    simp only [pushDirty, pushAll]
    cases hp : pushItem b it with
    | none => simp
    | some b1 => simp only; exact ih b1

/-- **The rollback is what makes a failed push traceless.** The mechanism as written - push onto the live body, on an error
    truncate bytes, signature and descriptor list to the remembered lengths - is the atomic `push` of the model, WHATEVER a
    failing marshaller left behind: on success the body is the pushed one, on failure it is exactly the body before the
    call. -/
theorem rollback_makes_push_atomic (b : Body) (j : Junk) (items : List Item) :
    pushWithRollback b j items = push b items := by
  unfold pushWithRollback push
  obtain ⟨hok, hfail⟩ := pushDirty_ok_iff j items b
  have hext := pushDirty_extends j items b
  cases hd : pushDirty b j items with
  | mk d ok =>
    rw [hd] at hok hfail hext
    cases ok with
    | true => simp only at hok ⊢; rw [hok trivial]
    | false =>
      simp only at hfail ⊢
      rw [hfail trivial, rollback_restores b d hext]

/-- A reset leaves nothing attached. -/
theorem reset_empty (b : Body) : step b .reset = Body.empty b.bo := rfl

private theorem pushAll_append (b : Body) (xs ys : List Item) :
    pushAll b (xs ++ ys) = (pushAll b xs).bind (fun b' => pushAll b' ys) := by
  induction xs generalizing b with
  | nil => simp [pushAll]
  | cons x xs ih =>
    simp only [List.cons_append, pushAll]
    cases pushItem b x with
    | none => simp
    | some b1 => simp only [ih]

private theorem run_bo (b : Body) (ops : List Op) : (run b ops).bo = b.bo := by
  induction ops generalizing b with
  | nil => rfl
  | cons op ops ih =>
    simp only [run, List.foldl_cons] at *
    rw [ih]
    cases op with
    | reset => simp [step, Body.empty]
    | push items =>
      simp only [step, push]
      cases hp : pushAll b items with
      | none => rfl
      | some b' => exact (push_only_appends b b' items hp).1

/-- After ANY history of pushes (of any arity, succeeding or failing at any inner element) and resets, the
    body is exactly what replaying the successful pushes since the last reset on an empty body gives:
    bytes, signature and descriptor count together. -/
theorem body_is_replay (bo : ByteOrder) (ops : List Op) :
    pushAll (Body.empty bo) (effective (Body.empty bo) [] ops) = some (run (Body.empty bo) ops) := by
  suffices ∀ (ops : List Op) (b : Body) (acc : List Item), b.bo = bo →
      pushAll (Body.empty bo) acc = some b →
      pushAll (Body.empty bo) (effective b acc ops) = some (run b ops) by
    exact this ops (Body.empty bo) [] rfl rfl
  intro ops
  induction ops with
  | nil => intro b acc _ h; simpa [effective, run] using h
  | cons op ops ih =>
    intro b acc hbo h
    cases op with
    | reset =>
      simp only [effective, run, List.foldl_cons, step]
      rw [hbo]
      exact ih (Body.empty bo) [] rfl rfl
    | push items =>
      simp only [effective, run, List.foldl_cons, step, push]
      cases hp : pushAll b items with
      | none => exact ih b acc hbo h
      | some b' =>
        apply ih b' (acc ++ items) ((push_only_appends b b' items hp).1.trans hbo)
        rw [pushAll_append, h]; simpa using hp

/-- The bytes and signature of a body built from plain values are exactly the concatenated encodings and
    the concatenated signatures of those values (C02's `enc`), i.e. they *describe* the pushed values. -/
theorem body_describes_pushed (bo : ByteOrder) (ps : List (Ty × Val)) (b : Body)
    (h : pushAll (Body.empty bo) (plainItems ps) = some b) :
    encFields bo 0 (itemsTypes ps) (itemsVals ps) = some b.buf ∧ b.sig = Ty.listToStr (itemsTypes ps) :=
  let ⟨h1, h2, _, _⟩ := (pushAll_plain_eq bo ps b).mp h
  ⟨h1, h2⟩

/-- A failed single or multi-value get leaves the parser where it was. -/
theorem get_fail_unchanged (b : Body) (p : Parser) (ts : List Ty) (e : GetErr)
    (h : (getMult b p ts).1 = .error e) : (getMult b p ts).2 = p := by
  unfold getMult at *
  by_cases hlen : ts.length > sigsLeft b p
  · simp [hlen]
  · simp only [hlen, if_false] at h ⊢
    cases hg : getAll b p ts with
    | error e' => rfl
    | ok r => obtain ⟨vs, p'⟩ := r; simp [hg] at h

theorem getParam_fail_unchanged (b : Body) (p : Parser) (e : GetErr)
    (h : (getParam b p).1 = .error e) : (getParam b p).2 = p := by
  unfold getParam at *
  split
  · rfl
  · split
    · split
      · simp_all
      · rfl
    · rfl

/-- A successful get advances by exactly the value returned: the signature index by the length of the
    type's signature, the byte index to the end of the decoded value (at least one byte). -/
theorem get_ok_advances (b : Body) (p p' : Parser) (t : Ty) (v : Val) (h : get b p t = .ok (v, p')) :
    p'.sigIdx = p.sigIdx + t.toStr.length ∧ p.bufIdx < p'.bufIdx ∧ p'.bufIdx ≤ b.buf.length ∧
    dec b.bo b.buf (some b.nfds) maxDepth t p.bufIdx b.buf.length = some (v, p'.bufIdx) ∧
    enc b.bo p.bufIdx t v = some (slice b.buf p.bufIdx (p'.bufIdx - p.bufIdx)) := by
  unfold get at h
  split at h
  · cases h
  · rename_i s hs
    split at h
    · cases h
    · rename_i heq
      split at h
      · rename_i v' o' hd
        simp only [Except.ok.injEq, Prod.mk.injEq] at h
        obtain ⟨rfl, rfl⟩ := h
        obtain ⟨h1, h2, _, h4, _, _⟩ := enc_dec _ _ _ _ _ _ _ _ _ hd
        have : s = t.toStr := by simpa using heq
        exact ⟨by simp [this], h1, h2, hd, h4⟩
      · cases h

/-- helper: a chain of successful gets -/
private theorem getAll_ok_advances (b : Body) : ∀ (ts : List Ty) (p p' : Parser) (vs : List Val),
    getAll b p ts = .ok (vs, p') →
    vs.length = ts.length ∧ p'.sigIdx = p.sigIdx + (ts.map (fun t => t.toStr.length)).sum ∧
    p.bufIdx ≤ p'.bufIdx ∧ p'.bufIdx ≤ max p.bufIdx b.buf.length ∧ (ts ≠ [] → p.bufIdx < p'.bufIdx) := by
  intro ts
  induction ts with
  | nil =>
    intro p p' vs h
    simp only [getAll, Except.ok.injEq, Prod.mk.injEq] at h
    obtain ⟨rfl, rfl⟩ := h
    refine ⟨rfl, by simp, Nat.le_refl _, Nat.le_max_left _ _, fun hh => absurd rfl hh⟩
  | cons t ts ih =>
    intro p p' vs h
    simp only [getAll] at h
    cases hg : get b p t with
    | error e => rw [hg] at h; simp at h
    | ok r =>
      obtain ⟨v, p1⟩ := r
      rw [hg] at h
      simp only at h
      cases ha : getAll b p1 ts with
      | error e => rw [ha] at h; simp at h
      | ok r2 =>
        obtain ⟨vs2, p2⟩ := r2
        rw [ha] at h
        simp only [Except.ok.injEq, Prod.mk.injEq] at h
        obtain ⟨rfl, rfl⟩ := h
        obtain ⟨h1, h2, h3, _, _⟩ := get_ok_advances b p p1 t v hg
        obtain ⟨i1, i2, i3, i4, _⟩ := ih p1 p2 vs2 ha
        refine ⟨by simp [i1], ?_, by omega, by omega, fun _ => by omega⟩
        rw [i2, h1]
        simp only [List.map_cons, List.sum_cons]
        omega

/-- A successful multi-get (`get2`..`get5`) advances by exactly the values returned: one value per requested type, the
    signature index by the lengths of their signatures, the byte index forward to the end of the last value - and it is the
    same as getting the values one by one. -/
theorem getMult_ok_advances (b : Body) (p p' : Parser) (ts : List Ty) (vs : List Val)
    (h : getMult b p ts = (.ok vs, p')) :
    getAll b p ts = .ok (vs, p') ∧ vs.length = ts.length ∧
    p'.sigIdx = p.sigIdx + (ts.map (fun t => t.toStr.length)).sum ∧ p.bufIdx ≤ p'.bufIdx ∧
    (ts ≠ [] → p.bufIdx < p'.bufIdx) := by
  unfold getMult at h
  split at h
  · simp at h
  · cases ha : getAll b p ts with
    | error e => rw [ha] at h; simp at h
    | ok r =>
      obtain ⟨vs', p''⟩ := r
      rw [ha] at h
      simp only [Prod.mk.injEq, Except.ok.injEq] at h
      obtain ⟨rfl, rfl⟩ := h
      obtain ⟨i1, i2, i3, _, i5⟩ := getAll_ok_advances b ts p p'' vs' ha
      exact ⟨rfl, i1, i2, i3, i5⟩

/-- A successful dynamic get returns the value the decoder reads for the NEXT type of the signature and advances by exactly
    that value and that type's signature. -/
theorem getParam_ok_advances (b : Body) (p p' : Parser) (t : Ty) (v : Val) (h : getParam b p = (.ok (t, v), p')) :
    ∃ s, nextSig b p = some s ∧ p'.sigIdx = p.sigIdx + s.length ∧ p.bufIdx < p'.bufIdx ∧ p'.bufIdx ≤ b.buf.length ∧
      dec b.bo b.buf (some b.nfds) maxDepth t p.bufIdx b.buf.length = some (v, p'.bufIdx) := by
  unfold getParam at h
  cases hn : nextSig b p with
  | none => rw [hn] at h; simp at h
  | some s =>
    rw [hn] at h
    simp only at h
    cases hp : Sig.parseDescription s with
    | none => rw [hp] at h; simp at h
    | some l =>
      cases l with
      | nil => rw [hp] at h; simp at h
      | cons t' rest =>
        rw [hp] at h
        simp only at h
        cases hd : dec b.bo b.buf (some b.nfds) maxDepth t' p.bufIdx b.buf.length with
        | none => rw [hd] at h; simp at h
        | some r =>
          obtain ⟨v', o'⟩ := r
          rw [hd] at h
          simp only [Prod.mk.injEq, Except.ok.injEq] at h
          obtain ⟨⟨rfl, rfl⟩, rfl⟩ := h
          obtain ⟨h1, h2, _⟩ := enc_dec _ _ _ _ _ _ _ _ _ hd
          exact ⟨s, rfl, rfl, h1, h2, hd⟩

/-- Requesting a type that does not match the next signature is an error rather than a misread. -/
theorem get_mismatch_errors (b : Body) (ts₁ ts₂ : List Ty) (t t' : Ty)
    (hsig : Spec.Sig.Denotes b.sig (ts₁ ++ t :: ts₂)) (p : Parser)
    (hp : p.sigIdx = (Ty.listToStr ts₁).length) (hne : t'.toStr ≠ t.toStr) :
    get b p t' = .error .wrongSignature :=
  get_mismatch b ts₁ ts₂ t t' hsig p hp hne

/-- Whole-body round trip through the builder and the parser. -/
theorem builder_parser_roundtrip (bo : ByteOrder) (ps : List (Ty × Val)) (b : Body)
    (hb : pushAll (Body.empty bo) (plainItems ps) = some b)
    (hsig : Spec.Sig.Denotes b.sig (itemsTypes ps))
    (hd : ∀ p ∈ ps, depthOf p.1 p.2 ≤ maxDepth ∧ fdsBelow 0 p.1 p.2 = true) :
    getAll b ⟨0, 0⟩ (itemsTypes ps) = .ok (itemsVals ps, ⟨b.buf.length, b.sig.length⟩) :=
  parser_roundtrip bo ps b hb hsig hd

end Rustbus.Body

#print axioms Rustbus.Body.failed_push_no_trace
#print axioms Rustbus.Body.rollback_restores
#print axioms Rustbus.Body.push_only_appends
#print axioms Rustbus.Body.reset_empty
#print axioms Rustbus.Body.body_is_replay
#print axioms Rustbus.Body.body_describes_pushed
#print axioms Rustbus.Body.get_fail_unchanged
#print axioms Rustbus.Body.getParam_fail_unchanged
#print axioms Rustbus.Body.get_ok_advances
#print axioms Rustbus.Body.get_mismatch_errors
#print axioms Rustbus.Body.builder_parser_roundtrip
#print axioms Rustbus.Body.getMult_ok_advances
#print axioms Rustbus.Body.getParam_ok_advances
#print axioms Rustbus.Body.rollback_makes_push_atomic
