import RustbusModel.Lemmas.Wire
import RustbusModel.Props.C01
/-!
C03 — Decoders accept exactly the valid encodings and return the encoded value.

`validate` models `validate_raw::validate_marshalled`, `unmarshal` the Param and the typed
unmarshallers (one decoder model, `dec`, tied to all three implementations by the correspondence run).
"Valid encoding of signature `t` at offset `off`" is: there is a value `v` whose encoding `enc bo off t v`
(C02: the D-Bus encoding) is exactly those bytes, nested at most 64 levels deep.
All theorems hold for ARBITRARY byte strings `buf`.
-/
namespace Rustbus.Wire
open Rustbus Rustbus.Bytes Rustbus.Spec.Wire

/-- Raw validation succeeds with `n` **exactly when** the `n` bytes at `off` are inside the buffer and
    are the encoding (at that offset, in that byte order) of some value of the signature that is nested
    at most 64 levels deep. In particular it reports exactly the number of bytes the value occupies. -/
theorem validate_iff (bo : ByteOrder) (buf : List UInt8) (off : Nat) (t : Ty) (n : Nat) :
    validate bo buf off t = some n ↔
      (off + n ≤ buf.length ∧ ∃ v, enc bo off t v = some (slice buf off n) ∧ depthOf t v ≤ maxDepth) := by
  constructor
  · intro h
    unfold validate at h
    cases hd : dec bo buf none maxDepth t off buf.length with
    | none => simp [hd] at h
    | some r =>
      obtain ⟨v, o'⟩ := r
      simp only [hd, Option.some.injEq] at h
      obtain ⟨h1, h2, _, h4, h5, _⟩ := enc_dec bo buf none maxDepth t off buf.length v o' hd
      subst h
      exact ⟨by omega, v, h4, h5⟩
  · rintro ⟨hb, v, he, hdp⟩
    obtain ⟨hdecomp, hlen⟩ := buf_decomp buf off n hb
    have hsl : (slice buf off n).length = n := slice_length _ _ _ hb
    have := validate_roundtrip bo t v (buf.take off) (slice buf off n) (buf.drop (off + n))
      (by rw [hlen]; exact he) hdp
    rw [← hdecomp, hlen, hsl] at this
    exact this

/-- An accepted value occupies at least one byte (no decoder loop can stall) and stays inside the buffer. -/
theorem validate_progress (bo : ByteOrder) (buf : List UInt8) (off : Nat) (t : Ty) (n : Nat)
    (h : validate bo buf off t = some n) : 0 < n ∧ off + n ≤ buf.length := by
  obtain ⟨hb, v, he, _⟩ := (validate_iff bo buf off t n).mp h
  have := enc_pos bo off t v _ he
  rw [slice_length _ _ _ hb] at this
  exact ⟨this, hb⟩

/-- The encoding is canonical: two values with the same encoding at the same offset are equal, so
    "the value those bytes denote" is well defined. -/
theorem enc_injective (bo : ByteOrder) (off : Nat) (t : Ty) (v v' : Val) (bs : List UInt8)
    (h : enc bo off t v = some bs) (h' : enc bo off t v' = some bs) : v = v' := by
  have k (w : Val) (hw : enc bo off t w = some bs) (hdw : depthOf t w ≤ depthOf t v + depthOf t v') :=
    dec_enc bo t w (List.replicate off 0) bs [] none (depthOf t v + depthOf t v') (off + bs.length)
      (by simpa using hw) hdw (by simp [fdsOk]) (by simp) (by simp)
  have k1 := k v h (by omega)
  have k2 := k v' h' (by omega)
  rw [k1] at k2
  simp only [Option.some.injEq, Prod.mk.injEq] at k2
  exact k2.1

/-- Unmarshalling succeeds on exactly the inputs validation accepts, given enough attached descriptors:
    it returns `(v, off + n)` iff validation returns `n`, the bytes are the encoding of `v`, and every
    descriptor index in `v` is below the number of attached descriptors. -/
theorem unmarshal_iff (bo : ByteOrder) (buf : List UInt8) (nfds off : Nat) (t : Ty) (v : Val) (o' : Nat) :
    unmarshal bo buf nfds off t = some (v, o') ↔
      (off ≤ o' ∧ validate bo buf off t = some (o' - off) ∧
       enc bo off t v = some (slice buf off (o' - off)) ∧ fdsBelow nfds t v = true) := by
  unfold unmarshal
  rw [dec_nfds]
  constructor
  · rintro ⟨h, hf⟩
    obtain ⟨h1, _, _, h4, _, _⟩ := enc_dec bo buf none maxDepth t off buf.length v o' h
    refine ⟨by omega, ?_, h4, hf⟩
    unfold validate; rw [h]
  · rintro ⟨hle, hv, he, hf⟩
    refine ⟨?_, hf⟩
    unfold validate at hv
    cases hd : dec bo buf none maxDepth t off buf.length with
    | none => simp [hd] at hv
    | some r =>
      obtain ⟨v', o''⟩ := r
      simp only [hd, Option.some.injEq] at hv
      obtain ⟨h1, h2, _, h4, h5, _⟩ := enc_dec bo buf none maxDepth t off buf.length v' o'' hd
      have ho : o'' = o' := by omega
      subst ho
      -- both v and v' encode to the same bytes, hence are equal
      rw [enc_injective bo off t v v' _ he h4]

end Rustbus.Wire

#print axioms Rustbus.Wire.validate_iff
#print axioms Rustbus.Wire.validate_progress
#print axioms Rustbus.Wire.enc_injective
#print axioms Rustbus.Wire.unmarshal_iff
