import RustbusModel.Lemmas.Names
/-!
C08 — Name and object-path validators accept exactly the spec's languages.
`validate*` are the models of the Rust validators (Model/Names.lean); `Spec*` are the languages of
the D-Bus specification (Lemmas/Names.lean, written independently of the code, over `Sep`).
Each theorem holds for **every** string of Unicode scalar values.
-/
namespace Rustbus.Names

private theorem dotted_core (cls : Char → Bool) (chr : Char → Prop) (hc : ∀ c, cls c = true ↔ chr c)
    (hascii : ∀ c, cls c = true → c.utf8Size = 1) (b : Bool) (s : List Char) :
    ((splitOn '.' s).all (elemOk cls b) && decide (2 ≤ (splitOn '.' s).length)) = true ↔
      ∃ n, 2 ≤ n ∧ Sep '.' (SpecElem chr b) s n := by
  simp only [Bool.and_eq_true, decide_eq_true_eq]
  rw [all_iff (elemOk cls b) (SpecElem chr b) (elemOk_iff cls chr hc b)]
  constructor
  · intro ⟨h1, h2⟩
    exact ⟨_, h2, (sep_iff_split _ _ _ _).mpr ⟨rfl, h1⟩⟩
  · intro ⟨n, hn, hs⟩
    obtain ⟨hl, ha⟩ := (sep_iff_split _ _ _ _).mp hs
    exact ⟨ha, by omega⟩

private theorem dotted_ascii (cls : Char → Bool) (chr : Char → Prop) (hc : ∀ c, cls c = true ↔ chr c)
    (hascii : ∀ c, cls c = true → c.utf8Size = 1) (b : Bool) (s : List Char) (n : Nat)
    (h : Sep '.' (SpecElem chr b) s n) : utf8Len s = s.length := by
  apply utf8Len_eq_length
  apply chars_of_split '.' s (fun c => c.utf8Size = 1) (by decide)
  intro e he c hce
  have := ((sep_iff_split _ _ _ _).mp h).2 e he
  exact hascii c ((hc c).mpr (this.2.1 c hce))

/-- Interface names: accepted exactly when spec-valid. -/
theorem validateInterface_iff (s : List Char) : validateInterface s = true ↔ SpecInterface s := by
  unfold validateInterface SpecInterface
  split
  · rename_i hlen
    constructor
    · intro h; cases h
    · intro ⟨hl, n, hn, hs⟩
      have := dotted_ascii clsName SpecNameChar clsName_iff clsName_ascii false s n hs
      omega
  · rename_i hlen
    rw [dotted_core clsName SpecNameChar clsName_iff clsName_ascii]
    have := utf8Len_ge_length s
    constructor
    · intro h; exact ⟨by omega, h⟩
    · intro h; exact h.2

/-- Error names follow the interface-name rules. -/
theorem validateErrorname_iff (s : List Char) : validateErrorname s = true ↔ SpecInterface s :=
  validateInterface_iff s

/-- Bus names (unique and well-known): accepted exactly when spec-valid. -/
theorem validateBusname_iff (s : List Char) : validateBusname s = true ↔ SpecBusname s := by
  unfold validateBusname SpecBusname
  have hge := utf8Len_ge_length s
  split
  · rename_i hlen
    constructor
    · intro h; cases h
    · intro ⟨hl, h⟩
      exfalso
      rcases h with ⟨r, n, rfl, hn, hs⟩ | ⟨_, n, hn, hs⟩
      · have := dotted_ascii clsBus SpecBusChar clsBus_iff clsBus_ascii true r n hs
        have h2 : utf8Len (':' :: r) = 1 + utf8Len r := by
          simp [utf8Len]; decide
        simp only [List.length_cons] at hl
        omega
      · have := dotted_ascii clsBus SpecBusChar clsBus_iff clsBus_ascii false s n hs
        omega
  · rename_i hlen
    split
    · rename_i u rest heq
      split at heq
      · rename_i r
        simp only [Prod.mk.injEq] at heq
        obtain ⟨rfl, rfl⟩ := heq
        rw [dotted_core clsBus SpecBusChar clsBus_iff clsBus_ascii]
        constructor
        · intro ⟨n, hn, hs⟩
          exact ⟨by omega, Or.inl ⟨_, n, rfl, hn, hs⟩⟩
        · intro ⟨_, h⟩
          rcases h with ⟨r', n, he, hn, hs⟩ | ⟨hh, _⟩
          · simp only [List.cons.injEq, true_and] at he
            subst he; exact ⟨n, hn, hs⟩
          · simp at hh
      · rename_i hnot
        simp only [Prod.mk.injEq] at heq
        obtain ⟨rfl, rfl⟩ := heq
        rw [dotted_core clsBus SpecBusChar clsBus_iff clsBus_ascii]
        have hhead : s.head? ≠ some ':' := by
          cases s with
          | nil => simp
          | cons c cs =>
            simp only [List.head?_cons, ne_eq, Option.some.injEq]
            intro hc; subst hc; exact hnot cs rfl
        constructor
        · intro ⟨n, hn, hs⟩
          exact ⟨by omega, Or.inr ⟨hhead, n, hn, hs⟩⟩
        · intro ⟨_, h⟩
          rcases h with ⟨r', n, he, _, _⟩ | ⟨_, h⟩
          · subst he; simp at hhead
          · exact h

/-- Member names: accepted exactly when spec-valid. -/
theorem validateMembername_iff (s : List Char) : validateMembername s = true ↔ SpecMember s := by
  unfold validateMembername SpecMember
  have hge := utf8Len_ge_length s
  cases s with
  | nil => simp
  | cons c cs =>
    simp only [List.isEmpty_cons, Bool.false_or, decide_eq_true_eq, ne_eq, reduceCtorEq,
      not_false_eq_true, List.head?_cons, Option.some.injEq, forall_eq', true_and]
    split
    · rename_i hlen
      constructor
      · intro h; cases h
      · intro ⟨hl, hall, _⟩
        have : utf8Len (c :: cs) = (c :: cs).length :=
          utf8Len_eq_length _ (fun x hx => clsName_ascii x ((clsName_iff x).mpr (hall x hx)))
        omega
    · rename_i hlen
      simp only [Bool.and_eq_true, Bool.not_eq_true']
      rw [all_iff clsName SpecNameChar clsName_iff, ← isDigit_iff]
      constructor
      · intro ⟨h1, h2⟩; exact ⟨by omega, h2, by simp [h1]⟩
      · intro ⟨_, h2, h3⟩; exact ⟨by simpa using h3, h2⟩

/-- Object paths: accepted exactly when spec-valid. -/
theorem validateObjectPath_iff (s : List Char) : validateObjectPath s = true ↔ SpecObjectPath s := by
  unfold validateObjectPath SpecObjectPath
  split
  · rename_i rest
    cases rest with
    | nil =>
      simp
    | cons c cs =>
      simp only [List.isEmpty_cons, Bool.false_eq_true, ↓reduceIte, List.cons.injEq, reduceCtorEq,
        and_false, true_and, false_or, exists_and_left, exists_eq_left']
      rw [all_iff (fun e => !e.isEmpty && e.all clsName) (fun e => e ≠ [] ∧ ∀ c ∈ e, SpecNameChar c)]
      · constructor
        · intro h
          refine ⟨_, ?_, (sep_iff_split _ _ _ _).mpr ⟨rfl, h⟩⟩
          have := splitOn_ne_nil '/' (c :: cs)
          cases hh : splitOn '/' (c :: cs) with
          | nil => exact absurd hh this
          | cons _ _ => simp
        · intro ⟨n, _, hs⟩
          exact ((sep_iff_split _ _ _ _).mp hs).2
      · intro e
        simp only [Bool.and_eq_true, Bool.not_eq_true', List.isEmpty_eq_false_iff]
        rw [all_iff clsName SpecNameChar clsName_iff]
  · rename_i hno
    constructor
    · intro h; cases h
    · intro h
      rcases h with rfl | ⟨r, n, rfl, _⟩
      · exact absurd rfl (hno [])
      · exact absurd rfl (hno r)

-- non-vacuity: the specification languages are inhabited at the interesting points
example : validateInterface "org.freedesktop.DBus".toList = true := by decide
example : validateBusname ":1.42".toList = true ∧ validateBusname "1.42".toList = false := by decide
example : validateMembername "1abc".toList = false ∧ validateMembername "é".toList = false := by decide
example : validateObjectPath "/a/b_1".toList = true ∧ validateObjectPath "/a//b".toList = false := by decide

end Rustbus.Names

#print axioms Rustbus.Names.validateInterface_iff
#print axioms Rustbus.Names.validateErrorname_iff
#print axioms Rustbus.Names.validateBusname_iff
#print axioms Rustbus.Names.validateMembername_iff
#print axioms Rustbus.Names.validateObjectPath_iff
