import RustbusModel.Lemmas.Marshal
import RustbusModel.Lemmas.WireShape
/-!
C02 — Marshalled bytes are exactly the D-Bus encoding; unencodable values are refused.

`Wire.enc` is the D-Bus encoding written as a recursive function of (byte order, absolute offset, type,
value). The theorems below (a) make `enc` auditable as *the* encoding (alignment and zero padding,
byte order, array lengths counting element bytes only, string framing, booleans 0/1, variants as
signature + value, 8-aligned dict entries, descriptors as u32 indices), (b) prove that the marshalling
MECHANISM of the code (append, pad from buffer length, length placeholder + back-patch, slice fast path)
computes exactly `enc`, and (c) that only well-typed values are ever emitted. The tie between
`marshalM`/`enc` and the Rust marshallers (typed traits, Param tree, push_variant) is the byte-for-byte
correspondence run of this check.
-/
namespace Rustbus.Wire
open Rustbus Rustbus.Bytes Rustbus.Spec.Wire Rustbus.Marshal

/-- (b) The marshalling mechanism computes exactly the encoding at the absolute offset `buf.length`
    (and refuses exactly when there is none), for every type, value, byte order and buffer contents. -/
theorem marshal_is_enc (bo : ByteOrder) (t : Ty) (v : Val) (buf : List UInt8) :
    marshalM bo t v buf = (enc bo buf.length t v).map (buf ++ ·) :=
  marshalM_eq_enc bo t v buf

/-- (b) A refused value leaves no trace: the mechanism either extends the buffer by the encoding or
    returns nothing (the caller's buffer is restored by the rollback of C15). -/
theorem marshal_extends (bo : ByteOrder) (t : Ty) (v : Val) (buf buf' : List UInt8)
    (h : marshalM bo t v buf = some buf') : ∃ bs, enc bo buf.length t v = some bs ∧ buf' = buf ++ bs := by
  rw [marshal_is_enc] at h
  cases he : enc bo buf.length t v with
  | none => simp [he] at h
  | some bs => exact ⟨bs, rfl, by simpa [he] using h.symm⟩

/-- (b) The typed API's fast path for slices of fixed-size elements equals the element-wise encoding. -/
theorem fast_path_is_enc (bo : ByteOrder) (b : Base) (k : Nat) (ns : List Nat) (buf : List UInt8)
    (hb : fastElem b = true) (hk : b.fixedSize = some k) (hn : ∀ n ∈ ns, n < 256 ^ k) :
    marshalSliceFastM bo b k ns buf =
      (enc bo buf.length (.array (.base b)) (.arr (ns.map Val.num))).map (buf ++ ·) :=
  marshalSliceFastM_eq_enc bo b k ns buf hb hk hn

/-- (a) Alignment: every encoding starts with exactly the zero bytes that align its type relative to the
    start of the body, followed by at least one byte of content. -/
theorem aligned_zero_padded (bo : ByteOrder) (off : Nat) (t : Ty) (v : Val) (bs : List UInt8)
    (h : enc bo off t v = some bs) : ∃ r, bs = zeros (padLen t.align off) ++ r ∧ 0 < r.length :=
  enc_aligned bo off t v bs h

/-- (a) Fixed-size basic types: padding, then the value in the message's byte order; booleans only 0/1. -/
theorem fixed_encoding (bo : ByteOrder) (off : Nat) (b : Base) (k n : Nat) (hk : b.fixedSize = some k) :
    enc bo off (.base b) (.num n) =
      if n < b.bound then some (zeros (padLen b.align off) ++ bytesOf bo k n) else none := by
  simp [enc, encBase, hk]

theorem bool_is_0_or_1 (bo : ByteOrder) (off : Nat) (v : Val) (bs : List UInt8)
    (h : enc bo off (.base .bool) v = some bs) : v = .num 0 ∨ v = .num 1 := by
  cases v with
  | num n =>
    have hb : Base.bool.bound = 2 := rfl
    simp only [enc, encBase, Base.fixedSize] at h
    by_cases hn : n < Base.bool.bound
    · have : n = 0 ∨ n = 1 := by omega
      rcases this with rfl | rfl <;> simp
    · rw [if_neg hn] at h; cases h
  | _ => simp [enc, encBase, Base.fixedSize] at h

/-- (a) Strings and object paths: 4-aligned u32 length, the bytes, one NUL; content valid. -/
theorem string_framing (bo : ByteOrder) (off : Nat) (b : Base) (s bs : List UInt8)
    (hb : b = .string ∨ b = .objpath) (h : enc bo off (.base b) (.str s) = some bs) :
    bs = zeros (padLen 4 off) ++ (bytesOf bo 4 s.length ++ (s ++ [0])) ∧ strOk b s = true := by
  rcases hb with rfl | rfl <;>
  · simp only [enc, encBase, Base.fixedSize] at h
    split at h
    · split at h
      · simp only [Option.some.injEq] at h
        exact ⟨h.symm, by assumption⟩
      · cases h
    · cases h

/-- (a) Signatures: u8 length, the bytes, one NUL, no padding; content a valid signature. -/
theorem signature_framing (bo : ByteOrder) (off : Nat) (s bs : List UInt8)
    (h : enc bo off (.base .signature) (.str s) = some bs) :
    bs = UInt8.ofNat s.length :: (s ++ [0]) ∧ Sig.validateSignature (latin1 s) = true := by
  simp only [enc, encBase, Base.fixedSize] at h
  split at h
  · simp only [Option.some.injEq] at h
    rename_i hs
    exact ⟨h.symm, by simpa [strOk] using hs⟩
  · cases h

/-- (a) Strings never contain NUL and are valid UTF-8. -/
theorem string_content (bo : ByteOrder) (off : Nat) (s bs : List UInt8)
    (h : enc bo off (.base .string) (.str s) = some bs) : Utf8.valid s = true ∧ (0 : UInt8) ∉ s := by
  have := (string_framing bo off .string s bs (Or.inl rfl) h).2
  simpa [strOk] using this

/-- (a) Arrays: 4-aligned u32 length that counts the element bytes only (neither itself nor the padding
    before the first element), padding to the element alignment (also when empty), the elements one
    after the other each at its own absolute offset; at most 64 MiB. -/
theorem array_framing (bo : ByteOrder) (off : Nat) (e : Ty) (vs : List Val) (bs : List UInt8)
    (h : enc bo off (.array e) (.arr vs) = some bs) :
    ∃ body, encList bo (off + padLen 4 off + 4 + padLen e.align (off + padLen 4 off + 4)) e vs = some body ∧
      body.length ≤ maxArrayLen ∧
      bs = zeros (padLen 4 off) ++ (bytesOf bo 4 body.length ++
            (zeros (padLen e.align (off + padLen 4 off + 4)) ++ body)) := by
  simp only [enc] at h
  split at h
  · cases h
  · rename_i body hb
    split at h
    · simp only [Option.some.injEq] at h
      exact ⟨body, hb, by assumption, h.symm⟩
    · cases h

/-- (a) Dicts: like arrays with 8-aligned content; every entry starts 8-aligned with key then value. -/
theorem dict_framing (bo : ByteOrder) (off : Nat) (k : Base) (vt : Ty) (es : List Val) (bs : List UInt8)
    (h : enc bo off (.dict k vt) (.arr es) = some bs) :
    ∃ body, encEntries bo (off + padLen 4 off + 4 + padLen 8 (off + padLen 4 off + 4)) k vt es = some body ∧
      body.length ≤ maxArrayLen ∧
      bs = zeros (padLen 4 off) ++ (bytesOf bo 4 body.length ++
            (zeros (padLen 8 (off + padLen 4 off + 4)) ++ body)) := by
  simp only [enc] at h
  split at h
  · cases h
  · rename_i body hb
    split at h
    · simp only [Option.some.injEq] at h
      exact ⟨body, hb, by assumption, h.symm⟩
    · cases h

theorem dict_entry_framing (bo : ByteOrder) (off : Nat) (k : Base) (vt : Ty) (kv vv : Val)
    (rest : List Val) (bs : List UInt8)
    (h : encEntries bo off k vt (.struct [kv, vv] :: rest) = some bs) :
    ∃ kb vb rb, encBase bo (off + padLen 8 off) k kv = some kb ∧
      enc bo (off + padLen 8 off + kb.length) vt vv = some vb ∧
      encEntries bo (off + padLen 8 off + kb.length + vb.length) k vt rest = some rb ∧
      bs = zeros (padLen 8 off) ++ (kb ++ (vb ++ rb)) := by
  simp only [encEntries] at h
  split at h
  · cases h
  · rename_i kb hk
    split at h
    · cases h
    · rename_i vb hv
      split at h
      · cases h
      · rename_i rb hr
        simp only [Option.some.injEq] at h
        exact ⟨kb, vb, rb, hk, hv, hr, h.symm⟩

/-- (a) Variants: the signature of the contained single complete type (u8 length, bytes, NUL), then the
    value encoded at the offset right after it. -/
theorem variant_framing (bo : ByteOrder) (off : Nat) (t : Ty) (v : Val) (bs : List UInt8)
    (h : enc bo off .variant (.variant t v) = some bs) :
    variantTypeOk t = true ∧
    ∃ body, enc bo (off + (sigBytes t).length + 2) t v = some body ∧
      bs = UInt8.ofNat (sigBytes t).length :: (sigBytes t ++ (0 :: body)) := by
  simp only [enc] at h
  split at h
  · rename_i hok
    split at h
    · cases h
    · rename_i body hb
      simp only [Option.some.injEq] at h
      exact ⟨hok, body, hb, h.symm⟩
  · cases h

/-- (a) Structs: 8-aligned, then the fields in order; never empty. -/
theorem struct_framing (bo : ByteOrder) (off : Nat) (fs : List Ty) (vs : List Val) (bs : List UInt8)
    (h : enc bo off (.struct fs) (.struct vs) = some bs) :
    fs ≠ [] ∧ ∃ body, encFields bo (off + padLen 8 off) fs vs = some body ∧
      bs = zeros (padLen 8 off) ++ body := by
  simp only [enc] at h
  split at h
  · cases h
  · rename_i hne
    split at h
    · cases h
    · rename_i body hb
      simp only [Option.some.injEq] at h
      exact ⟨by simpa using hne, body, hb, h.symm⟩

/-- (a) Descriptors travel as their u32 index. -/
theorem fd_is_index (bo : ByteOrder) (off n : Nat) (hn : n < 256 ^ 4) :
    enc bo off (.base .unixfd) (.num n) = some (zeros (padLen 4 off) ++ bytesOf bo 4 n) := by
  simp [enc, encBase, Base.fixedSize, Base.bound, Base.align, hn]

/-- (c) Only well-typed values are ever emitted: a string containing NUL or invalid UTF-8, an invalid
    object path or signature, an out-of-range integer, an empty struct, a malformed dict entry or a
    variant of an invalid type has NO encoding, in any byte order at any offset. -/
theorem unencodable_refused (bo : ByteOrder) (off : Nat) (t : Ty) (v : Val)
    (h : wellTyped t v = false) : enc bo off t v = none := by
  cases he : enc bo off t v with
  | none => rfl
  | some bs => rw [enc_some_wellTyped bo off t v bs he] at h; cases h

/-- (c) Conversely every well-typed basic value is encodable (for containers the only further condition
    is the 64 MiB bound of `array_framing`). -/
theorem wellTyped_basic_encodable (bo : ByteOrder) (off : Nat) (b : Base) (v : Val)
    (h : wellTyped (.base b) v = true) : (enc bo off (.base b) v).isSome = true :=
  wellTyped_enc_some_noarray bo off b v h

/-- The layout depends on the offset only through its residue mod 8, and its length not on the byte order. -/
theorem offset_mod8 (bo : ByteOrder) (off off' : Nat) (t : Ty) (v : Val) (hm : off % 8 = off' % 8) :
    enc bo off t v = enc bo off' t v := enc_offset_mod8 bo off off' t v hm

-- non-vacuity
example : enc .le 1 (.base .string) (.str [0x61, 0x00, 0x62]) = none := by decide +kernel
example : enc .le 1 (.base .string) (.str [0x61, 0x62]) = some [0, 0, 0, 2, 0, 0, 0, 0x61, 0x62, 0] := by
  decide +kernel
example : enc .be 0 (.dict .string .variant)
    (.arr [.struct [.str [0x6b], .variant (.base .u32) (.num 7)]]) =
    some [0, 0, 0, 16, 0, 0, 0, 0, 0, 0, 0, 1, 0x6b, 0, 1, 0x75, 0, 0, 0, 0, 0, 0, 0, 7] := by
  decide +kernel

end Rustbus.Wire

#print axioms Rustbus.Wire.marshal_is_enc
#print axioms Rustbus.Wire.marshal_extends
#print axioms Rustbus.Wire.fast_path_is_enc
#print axioms Rustbus.Wire.aligned_zero_padded
#print axioms Rustbus.Wire.fixed_encoding
#print axioms Rustbus.Wire.bool_is_0_or_1
#print axioms Rustbus.Wire.string_framing
#print axioms Rustbus.Wire.signature_framing
#print axioms Rustbus.Wire.string_content
#print axioms Rustbus.Wire.array_framing
#print axioms Rustbus.Wire.dict_framing
#print axioms Rustbus.Wire.dict_entry_framing
#print axioms Rustbus.Wire.variant_framing
#print axioms Rustbus.Wire.struct_framing
#print axioms Rustbus.Wire.fd_is_index
#print axioms Rustbus.Wire.unencodable_refused
#print axioms Rustbus.Wire.wellTyped_basic_encodable
#print axioms Rustbus.Wire.offset_mod8
