import RustbusModel.Lemmas.PeerId
import RustbusModel.Model.PeerReply
/-!
C20 — Peer interface replies correctly; the machine id is a stable 32-hex-digit id.
Property theorems only (helper lemmas live in Lemmas/PeerId.lean).
-/
namespace Rustbus.PeerId
open Rustbus.Serial (Hdr makeResponse)

/-- For every outcome of the random draw (u64, u32) and every clock value (u32) the id has exactly
    32 characters, all of them hexadecimal digits. -/
theorem machine_id_len (r1 r2 secs : Nat) (h1 : r1 < 2 ^ 64) (h2 : r2 < 2 ^ 32) (h3 : secs < 2 ^ 32) :
    (formatMachineUuid r1 r2 secs).length = 32 ∧
    (formatMachineUuid r1 r2 secs).all isHexUpper = true := by
  unfold formatMachineUuid
  have e1 := fmtHexMin_len 16 r1 (by omega) (by omega) (by simpa using h1)
  have e2 := fmtHexMin_len 8 r2 (by omega) (by omega) (by simpa using h2)
  have e3 := fmtHexMin_len 8 secs (by omega) (by omega) (by simpa using h3)
  refine ⟨by simp only [List.length_append, e1, e2, e3], ?_⟩
  simp only [List.all_append, fmtHexMin_allHex, Bool.and_self]

/-- Every id handed out through `get_machine_id` while the store starts empty is a 32-hex-digit id. -/
theorem get_machine_id_fresh_is_32hex (r1 r2 secs : Nat) (h1 : r1 < 2 ^ 64) (h2 : r2 < 2 ^ 32)
    (h3 : secs < 2 ^ 32) :
    ((getMachineId none r1 r2 secs).1).length = 32 ∧
    ((getMachineId none r1 r2 secs).1).all isHexUpper = true := by
  simpa [getMachineId] using machine_id_len r1 r2 secs h1 h2 h3

/-- Run `get_machine_id` once per draw in `draws`, threading the stored cell. -/
def runCalls : Option (List Char) → List (Nat × Nat × Nat) → List (List Char)
  | _, [] => []
  | cell, (r1, r2, s) :: rest =>
    let (id, cell') := getMachineId cell r1 r2 s
    id :: runCalls cell' rest

/-- Stability: as long as the stored id exists, every call returns it, whatever is drawn. -/
theorem machine_id_stable_stored (s : List Char) (draws : List (Nat × Nat × Nat)) :
    ∀ id ∈ runCalls (some s) draws, id = s := by
  induction draws with
  | nil => intro id h; simp [runCalls] at h
  | cons d ds ih =>
    obtain ⟨r1, r2, t⟩ := d
    intro id h
    simp only [runCalls, getMachineId, List.mem_cons] at h
    rcases h with h | h
    · exact h
    · exact ih id h

/-- Stability from an empty store: all calls return the id created by the *first* draw. -/
theorem machine_id_stable (d : Nat × Nat × Nat) (draws : List (Nat × Nat × Nat)) :
    ∀ id ∈ runCalls none (d :: draws), id = formatMachineUuid d.1 d.2.1 d.2.2 := by
  obtain ⟨r1, r2, t⟩ := d
  intro id h
  simp only [runCalls, getMachineId, List.mem_cons] at h
  rcases h with h | h
  · exact h
  · exact machine_id_stable_stored _ draws id h

/-- Decision logic: a reply is written exactly for Ping / GetMachineId on the Peer interface;
    every other header (interface or member absent or different) is "not handled", nothing written. -/
theorem peer_logic (iface member : Option (List Char)) :
    (handlePeer iface member = .replied false ↔
        iface = some peerIface ∧ member = some pingM) ∧
    (handlePeer iface member = .replied true ↔
        iface = some peerIface ∧ member = some getIdM) ∧
    (handlePeer iface member = .notHandled ↔
        ¬ (iface = some peerIface ∧
           (member = some pingM ∨ member = some getIdM))) := by
  have hne : pingM ≠ getIdM := by decide
  have hne' : getIdM ≠ pingM := by decide
  cases iface with
  | none => simp [handlePeer]
  | some i =>
    by_cases hi : i = peerIface
    · subst hi
      cases member with
      | none => simp [handlePeer]
      | some m =>
        by_cases h1 : m = pingM
        · subst h1; simp [handlePeer, hne]
        · by_cases h2 : m = getIdM
          · subst h2; simp [handlePeer, hne']
          · simp [handlePeer, h1, h2]
    · simp [handlePeer, hi]

/-- `filter_peer` accepts exactly the messages `handle_peer_message` answers. -/
theorem filter_iff_handled (iface member : Option (List Char)) :
    filterPeer iface member = true ↔ ∃ b, handlePeer iface member = .replied b := by
  unfold filterPeer
  cases handlePeer iface member <;> simp

/-- A handled call is answered exactly once, by a method return to its caller with its serial. -/
theorem handled_call_answered_exactly_once (m : Incoming) (cell : Option (List Char))
    (hc : m.isCall = true) (hi : m.iface = some peerIface) (hm : m.member = some pingM ∨ m.member = some getIdM) (hw : m.wrote = true) :
    ∃ r cell', handlePeerMessage m cell = (.ok true, [r], cell') ∧
      r.hdr.replySerial = m.call.serial ∧ r.hdr.destination = m.call.sender ∧ r.hdr.isError = false ∧
      r.hdr.errorName = none ∧ r.hdr.serial = none ∧
      (m.member = some pingM → r.body = none ∧ cell' = cell) ∧
      (m.member = some getIdM → r.body = some (getMachineId cell m.r1 m.r2 m.secs).1 ∧
        cell' = some (getMachineId cell m.r1 m.r2 m.secs).1) := by
  have hne : pingM ≠ getIdM := by decide
  have hne' : getIdM ≠ pingM := by decide
  rcases hm with hm | hm
  · have hp : handlePeer m.iface m.member = .replied false := ((peer_logic _ _).1).2 ⟨hi, hm⟩
    refine ⟨{ hdr := makeResponse m.call, body := none }, cell, ?_, rfl, rfl, rfl, rfl, rfl, fun _ => ⟨rfl, rfl⟩, ?_⟩
    · simp [handlePeerMessage, handleCall, hp, hw, hc]
    · intro h2; rw [hm] at h2; exact absurd (Option.some.inj h2) hne
  · have hp : handlePeer m.iface m.member = .replied true := ((peer_logic _ _).2.1).2 ⟨hi, hm⟩
    have hcell : (getMachineId cell m.r1 m.r2 m.secs).2 = some (getMachineId cell m.r1 m.r2 m.secs).1 := by
      cases cell <;> simp [getMachineId]
    refine ⟨{ hdr := makeResponse m.call, body := some (getMachineId cell m.r1 m.r2 m.secs).1 },
      some (getMachineId cell m.r1 m.r2 m.secs).1, ?_, rfl, rfl, rfl, rfl, rfl, ?_, fun _ => ⟨rfl, rfl⟩⟩
    · simp [handlePeerMessage, handleCall, hp, hw, hc, hcell]
    · intro h2; rw [hm] at h2; exact absurd (Option.some.inj h2) hne'

/-- Every other message - not a method call (a signal, a return, an error that names the Peer interface), interface absent
    or different, member absent or different - is reported as not handled, nothing is written and the id file is not
    touched, whether or not the connection would have taken a reply. -/
theorem other_message_not_answered (m : Incoming) (cell : Option (List Char))
    (h : ¬ (m.isCall = true ∧ m.iface = some peerIface ∧ (m.member = some pingM ∨ m.member = some getIdM))) :
    handlePeerMessage m cell = (.ok false, [], cell) := by
  by_cases hc : m.isCall = true
  · have hp : handlePeer m.iface m.member = .notHandled := ((peer_logic _ _).2.2).2 (fun hh => h ⟨hc, hh⟩)
    simp [handlePeerMessage, handleCall, hp, hc]
  · simp [handlePeerMessage, hc]

/-- Never more than one message per call, never an error message, and nothing at all when the send was refused. -/
theorem at_most_one_reply (m : Incoming) (cell : Option (List Char)) :
    (handlePeerMessage m cell).2.1.length ≤ 1 ∧
    (∀ r ∈ (handlePeerMessage m cell).2.1, r.hdr = makeResponse m.call) ∧
    (m.wrote = false → (handlePeerMessage m cell).2.1 = []) ∧
    ((handlePeerMessage m cell).1 = .ok true ↔ (handlePeerMessage m cell).2.1.length = 1) := by
  unfold handlePeerMessage handleCall
  cases m.isCall <;> cases handlePeer m.iface m.member with
  | notHandled => simp
  | replied b =>
    cases b <;> cases m.wrote <;> simp

/-- the ids in the bodies of all replies of a serving history -/
def idsServed (outs : List (HRes × List Reply)) : List (List Char) :=
  outs.flatMap (fun o => o.2.flatMap (fun r => r.body.toList))

/-- Stability over a whole serving history, whatever else is served in between and whatever is drawn: while the stored id
    exists every `GetMachineId` reply carries it. -/
theorem served_ids_stable_stored (s : List Char) (ms : List Incoming) :
    ∀ id ∈ idsServed (serve (some s) ms), id = s := by
  induction ms with
  | nil => intro id h; simp [idsServed, serve] at h
  | cons m ms ih =>
    intro id h
    have hcell : (handlePeerMessage m (some s)).2.2 = some s := by
      unfold handlePeerMessage handleCall
      cases m.isCall <;> cases handlePeer m.iface m.member with
      | notHandled => simp
      | replied b => cases b <;> cases m.wrote <;> simp [getMachineId]
    have hbody : ∀ r ∈ (handlePeerMessage m (some s)).2.1, ∀ x ∈ r.body.toList, x = s := by
      unfold handlePeerMessage handleCall
      cases m.isCall <;> cases handlePeer m.iface m.member with
      | notHandled => simp
      | replied b => cases b <;> cases m.wrote <;> simp [getMachineId]
    cases hh : handlePeerMessage m (some s) with
    | mk r rest =>
      cases rest with
      | mk out cell' =>
        rw [hh] at hcell hbody
        simp only at hcell hbody
        subst hcell
        simp only [serve, hh, idsServed, List.flatMap_cons, List.mem_append] at h
        rcases h with h | h
        · simp only [List.mem_flatMap] at h
          obtain ⟨r', hr', hx⟩ := h
          exact hbody r' hr' id hx
        · exact ih id h

/-- From an empty store: every id served is the one created for the FIRST `GetMachineId` that was handled - a 32-digit
    hexadecimal string - whatever the later draws are. -/
theorem served_ids_stable_and_32hex (ms : List Incoming)
    (hd : ∀ m ∈ ms, m.r1 < 2 ^ 64 ∧ m.r2 < 2 ^ 32 ∧ m.secs < 2 ^ 32) :
    ∃ s, (∀ id ∈ idsServed (serve none ms), id = s) ∧ s.length = 32 ∧ s.all isHexUpper = true := by
  induction ms with
  | nil => exact ⟨formatMachineUuid 0 0 0, by simp [idsServed, serve], (machine_id_len 0 0 0 (by omega) (by omega) (by omega))⟩
  | cons m ms ih =>
    obtain ⟨hb1, hb2, hb3⟩ := hd m (by simp)
    have ih' := ih (fun m' hm' => hd m' (by simp [hm']))
    by_cases hc : m.isCall = true
    · cases hp : handlePeer m.iface m.member with
      | notHandled =>
        obtain ⟨s, hs, hl⟩ := ih'
        refine ⟨s, ?_, hl⟩
        intro id h
        simp [serve, handlePeerMessage, handleCall, hc, hp, idsServed] at h
        exact hs id (by simpa [idsServed] using h)
      | replied b =>
        cases b with
        | false =>
          obtain ⟨s, hs, hl⟩ := ih'
          refine ⟨s, ?_, hl⟩
          intro id h
          cases hw : m.wrote <;>
            simp [serve, handlePeerMessage, handleCall, hc, hp, hw, idsServed] at h <;>
            exact hs id (by simpa [idsServed] using h)
        | true =>
          refine ⟨formatMachineUuid m.r1 m.r2 m.secs, ?_, machine_id_len _ _ _ hb1 hb2 hb3⟩
          intro id h
          have hst := served_ids_stable_stored (formatMachineUuid m.r1 m.r2 m.secs) ms
          cases hw : m.wrote <;>
            simp [serve, handlePeerMessage, handleCall, hc, hp, hw, idsServed, getMachineId] at h
          · exact hst id (by simpa [idsServed] using h)
          · rcases h with h | h
            · exact h
            · exact hst id (by simpa [idsServed] using h)
    · obtain ⟨s, hs, hl⟩ := ih'
      refine ⟨s, ?_, hl⟩
      intro id h
      simp [serve, handlePeerMessage, hc, idsServed] at h
      exact hs id (by simpa [idsServed] using h)

-- non-vacuity: a serving history from an empty store - GetMachineId whose send is refused (the id is created all the
-- same), a foreign call, Ping, GetMachineId twice with other draws, in between a SIGNAL named Ping on the Peer interface (not answered): both answers carry the id of the first draw
def exCall (serial : Nat) : Hdr :=
  { serial := some serial, sender := some [':', '1', '.', '5'], destination := none, replySerial := none,
    errorName := none, isError := false }
def exIn (serial : Nat) (member : Option (List Char)) (r1 : Nat) (wrote : Bool) : Incoming :=
  { isCall := true, call := exCall serial, iface := some peerIface, member := member, r1 := r1, r2 := 1, secs := 2, wrote := wrote }
example : serve none [exIn 3 (some getIdM) 10 false, { exIn 4 (some pingM) 0 true with iface := none },
      exIn 5 (some pingM) 0 true, exIn 6 (some getIdM) 11 true, { exIn 8 (some pingM) 0 true with isCall := false },
      exIn 7 (some getIdM) 12 true] =
    [(.sendErr, []), (.ok false, []),
     (.ok true, [{ hdr := makeResponse (exCall 5), body := none }]),
     (.ok true, [{ hdr := makeResponse (exCall 6), body := some (formatMachineUuid 10 1 2) }]),
     (.ok false, []),
     (.ok true, [{ hdr := makeResponse (exCall 7), body := some (formatMachineUuid 10 1 2) }])] := by decide
example : (makeResponse (exCall 6)).replySerial = some 6 ∧ (makeResponse (exCall 6)).destination = some [':', '1', '.', '5'] := by
  decide

-- non-vacuity: boundary draws
example : (formatMachineUuid 0 0 0).length = 32 := by decide
example : String.ofList (formatMachineUuid (2^64-1) 1 (2^32-1)) = "FFFFFFFFFFFFFFFF00000001FFFFFFFF" := by decide
example : handlePeer (some peerIface) (some pingM) = .replied false := by decide
example : peerIface = "org.freedesktop.DBus.Peer".toList ∧ pingM = "Ping".toList ∧ getIdM = "GetMachineId".toList := by decide

end Rustbus.PeerId

#print axioms Rustbus.PeerId.machine_id_len
#print axioms Rustbus.PeerId.get_machine_id_fresh_is_32hex
#print axioms Rustbus.PeerId.machine_id_stable_stored
#print axioms Rustbus.PeerId.machine_id_stable
#print axioms Rustbus.PeerId.peer_logic
#print axioms Rustbus.PeerId.filter_iff_handled

#print axioms Rustbus.PeerId.handled_call_answered_exactly_once
#print axioms Rustbus.PeerId.other_message_not_answered
#print axioms Rustbus.PeerId.at_most_one_reply
#print axioms Rustbus.PeerId.served_ids_stable_stored
#print axioms Rustbus.PeerId.served_ids_stable_and_32hex
