import RustbusModel.Lemmas.PeerId
/-!
C20 — Peer interface replies correctly; the machine id is a stable 32-hex-digit id.
Property theorems only (helper lemmas live in Lemmas/PeerId.lean).
-/
namespace Rustbus.PeerId

/-- For every outcome of the random draw (u64, u32) and every clock value (u32) the id has exactly
    32 characters, all of them hexadecimal digits. -/
theorem machine_id_len (r1 r2 secs : Nat) (h1 : r1 < 2 ^ 64) (h2 : r2 < 2 ^ 32) (h3 : secs < 2 ^ 32) :
    (formatMachineUuid r1 r2 secs).length = 32 ∧
    (formatMachineUuid r1 r2 secs).all isHexUpper = true := by
  unfold formatMachineUuid
  have e1 := fmtHexMin_len 16 r1 (by omega) (by omega) (by simpa using h1)
  have e2 := fmtHexMin_len 8 r2 (by omega) (by omega) (by simpa using h2)
  have e3 := fmtHexMin_len 8 secs (by omega) (by omega) (by simpa using h3)
  refine ⟨by simp only [List.length_append, e1, e2, e3], ?_⟩
  simp only [List.all_append, fmtHexMin_allHex, Bool.and_self]

/-- Every id handed out through `get_machine_id` while the store starts empty is a 32-hex-digit id. -/
theorem get_machine_id_fresh_is_32hex (r1 r2 secs : Nat) (h1 : r1 < 2 ^ 64) (h2 : r2 < 2 ^ 32)
    (h3 : secs < 2 ^ 32) :
    ((getMachineId none r1 r2 secs).1).length = 32 ∧
    ((getMachineId none r1 r2 secs).1).all isHexUpper = true := by
  simpa [getMachineId] using machine_id_len r1 r2 secs h1 h2 h3

/-- Run `get_machine_id` once per draw in `draws`, threading the stored cell. -/
def runCalls : Option (List Char) → List (Nat × Nat × Nat) → List (List Char)
  | _, [] => []
  | cell, (r1, r2, s) :: rest =>
    let (id, cell') := getMachineId cell r1 r2 s
    id :: runCalls cell' rest

/-- Stability: as long as the stored id exists, every call returns it, whatever is drawn. -/
theorem machine_id_stable_stored (s : List Char) (draws : List (Nat × Nat × Nat)) :
    ∀ id ∈ runCalls (some s) draws, id = s := by
  induction draws with
  | nil => intro id h; simp [runCalls] at h
  | cons d ds ih =>
    obtain ⟨r1, r2, t⟩ := d
    intro id h
    simp only [runCalls, getMachineId, List.mem_cons] at h
    rcases h with h | h
    · exact h
    · exact ih id h

/-- Stability from an empty store: all calls return the id created by the *first* draw. -/
theorem machine_id_stable (d : Nat × Nat × Nat) (draws : List (Nat × Nat × Nat)) :
    ∀ id ∈ runCalls none (d :: draws), id = formatMachineUuid d.1 d.2.1 d.2.2 := by
  obtain ⟨r1, r2, t⟩ := d
  intro id h
  simp only [runCalls, getMachineId, List.mem_cons] at h
  rcases h with h | h
  · exact h
  · exact machine_id_stable_stored _ draws id h

/-- Decision logic: a reply is written exactly for Ping / GetMachineId on the Peer interface;
    every other header (interface or member absent or different) is "not handled", nothing written. -/
theorem peer_logic (iface member : Option (List Char)) :
    (handlePeer iface member = .replied false ↔
        iface = some peerIface ∧ member = some pingM) ∧
    (handlePeer iface member = .replied true ↔
        iface = some peerIface ∧ member = some getIdM) ∧
    (handlePeer iface member = .notHandled ↔
        ¬ (iface = some peerIface ∧
           (member = some pingM ∨ member = some getIdM))) := by
  have hne : pingM ≠ getIdM := by decide
  have hne' : getIdM ≠ pingM := by decide
  cases iface with
  | none => simp [handlePeer]
  | some i =>
    by_cases hi : i = peerIface
    · subst hi
      cases member with
      | none => simp [handlePeer]
      | some m =>
        by_cases h1 : m = pingM
        · subst h1; simp [handlePeer, hne]
        · by_cases h2 : m = getIdM
          · subst h2; simp [handlePeer, hne']
          · simp [handlePeer, h1, h2]
    · simp [handlePeer, hi]

/-- `filter_peer` accepts exactly the messages `handle_peer_message` answers. -/
theorem filter_iff_handled (iface member : Option (List Char)) :
    filterPeer iface member = true ↔ ∃ b, handlePeer iface member = .replied b := by
  unfold filterPeer
  cases handlePeer iface member <;> simp

-- non-vacuity: boundary draws
example : (formatMachineUuid 0 0 0).length = 32 := by decide
example : String.ofList (formatMachineUuid (2^64-1) 1 (2^32-1)) = "FFFFFFFFFFFFFFFF00000001FFFFFFFF" := by decide
example : handlePeer (some peerIface) (some pingM) = .replied false := by decide
example : peerIface = "org.freedesktop.DBus.Peer".toList ∧ pingM = "Ping".toList ∧ getIdM = "GetMachineId".toList := by decide

end Rustbus.PeerId

#print axioms Rustbus.PeerId.machine_id_len
#print axioms Rustbus.PeerId.get_machine_id_fresh_is_32hex
#print axioms Rustbus.PeerId.machine_id_stable_stored
#print axioms Rustbus.PeerId.machine_id_stable
#print axioms Rustbus.PeerId.peer_logic
#print axioms Rustbus.PeerId.filter_iff_handled
