import RustbusModel.Lemmas.Header
/-!
C05 — Whole messages round-trip through header marshalling and are spec-conformant.
`marshalHeader` models `wire::marshal::marshal`, `decodeMessage` the library's decoders
(`unmarshal_header` + `unmarshal_dynamic_header` + `unmarshal_next_message`); the specification side is
`Spec/Header.lean`: 12 fixed bytes, then the generic `a(yv)` encoding (`Wire.enc`, C02) of the entries.
-/
namespace Rustbus.Header
open Rustbus Rustbus.Bytes Rustbus.Wire Rustbus.Spec.Wire Rustbus.Spec.Header

/-- Conformance: for every message (any type, flags, subset of header fields, names, body, byte order,
    serial) the marshaller succeeds exactly when the type is 1–4, all names / the body signature are valid
    and the message is not oversized, and then emits: the 12-byte fixed header (endianness flag, type,
    flags, version 1, body length = size of the body, serial), the field array as the `a(yv)` encoding of
    exactly the entries of `msgEntries` — SIGNATURE present iff the body is non-empty and equal to the
    body's signature, UNIX_FDS present iff descriptors are attached and equal to their number — and zero
    padding to an 8-byte boundary. -/
theorem marshal_conformant (m : Msg) (serial : Nat) (hr : msgInRange m serial) (out : List UInt8) :
    marshalHeader m serial = some out ↔
      (1 ≤ m.typ ∧ m.typ ≤ 4 ∧
       ∃ arr, enc m.bo 12 fieldArrayTy (.arr ((msgEntries m).map entryVal)) = some arr ∧
         out = padTo 8 (fixedBytes ⟨m.bo, m.typ, m.flags, m.body.length, serial⟩ ++ arr) ∧
         out.length + m.body.length ≤ maxMessageLen ∧
         (∀ e ∈ msgEntries m, e.1 ≠ 5 → e.1 ≠ 9 → ∃ f, entryField e = some (some f))) :=
  marshalHeader_spec m serial hr out

/-- The Invalid type is refused. -/
theorem invalid_type_refused (m : Msg) (serial : Nat) (h : m.typ = 0) : marshalHeader m serial = none := by
  simp [marshalHeader, h]

/-- A message with an invalid name in any name-valued field is refused (never put on the wire). -/
theorem invalid_name_refused (m : Msg) (serial : Nat) (hr : msgInRange m serial)
    (e : Entry) (he : e ∈ msgEntries m) (h5 : e.1 ≠ 5) (h9 : e.1 ≠ 9)
    (hbad : ∀ f, entryField e ≠ some (some f)) : marshalHeader m serial = none := by
  cases h : marshalHeader m serial with
  | none => rfl
  | some out =>
    obtain ⟨_, _, _, _, _, _, hall⟩ := (marshal_conformant m serial hr out).mp h
    obtain ⟨f, hf⟩ := hall e he h5 h9
    exact absurd hf (hbad f)

/-- Round trip: the library's own decoders turn the marshalled bytes (header ++ body) back into a message
    with identical byte order, type, flags, serial, header fields (incl. SIGNATURE and UNIX_FDS), and body
    bytes — for every message that carries the fields required for its type. -/
theorem marshal_unmarshal (m : Msg) (serial : Nat) (hr : msgInRange m serial) (hs : 0 < serial)
    (hrs : m.replySerial ≠ some 0) (out : List UInt8)
    (h : marshalHeader m serial = some out) (fs : List Field)
    (hf : entriesFields (msgEntries m) = some fs) (hok : fieldsOk m.typ fs = true) :
    decodeMessage (out ++ m.body) = some (⟨m.bo, m.typ, m.flags, m.body.length, serial⟩, fs, m.body) :=
  marshal_decode m serial hr hs hrs out h fs hf hok

/-- The flag helpers agree with the bits on the wire, for all three flags and all 256 flag bytes
    (a complete finite table, checked by kernel evaluation): `is_set` is the bit test, `set` sets exactly
    that bit, `unset` clears exactly that bit, `toggle` flips exactly that bit, results stay in a byte. -/
theorem flags_agree : ∀ i : Fin 3, ∀ f : Fin 256,
    (isSet i f = ((f.val / flagRaw i) % 2 == 1)) ∧
    isSet i (setFlag i f) = true ∧ isSet i (unsetFlag i f) = false ∧
    isSet i (toggleFlag i f) = !isSet i f ∧
    setFlag i f < 256 ∧ unsetFlag i f < 256 ∧ toggleFlag i f < 256 ∧
    (∀ j : Fin 3, j ≠ i → (isSet j (setFlag i f) = isSet j f ∧ isSet j (unsetFlag i f) = isSet j f ∧
                           isSet j (toggleFlag i f) = isSet j f)) := by
  decide +kernel

end Rustbus.Header

#print axioms Rustbus.Header.marshal_conformant
#print axioms Rustbus.Header.invalid_type_refused
#print axioms Rustbus.Header.invalid_name_refused
#print axioms Rustbus.Header.marshal_unmarshal
#print axioms Rustbus.Header.flags_agree
