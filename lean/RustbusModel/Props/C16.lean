import RustbusModel.Lemmas.Api
import RustbusModel.Lemmas.Marshal
import RustbusModel.Props.C03
import RustbusModel.Model.MarshalParam
/-!
C16 — Dynamic, trait, derive and macro APIs encode and decode identically.

In the model every API denotes a pair (type, value): a derived struct is the struct of its fields, a derived
or macro enum value is the variant of the chosen case, a Param tree is its (type, value). All marshallers
are the one mechanism `marshalM` (= `enc`, C02) and all decoders the one decoder `dec` (C03) — that the
Rust code of each API behaves like them is the correspondence run of this check (bytes and signatures of
equivalent values through every API, every API decoding every other's output). What remains to be
PROVED is the behaviour that is specific to the generated code: the case selection of enums, the
Catchall skipping, and `has_sig`.
-/
namespace Rustbus.Api
open Rustbus Rustbus.Bytes Rustbus.Wire Rustbus.Spec.Wire Rustbus.Marshal Rustbus.Enums Rustbus.HasSig

/-- Equivalent values produce identical bytes whichever marshalling MECHANISM of the model runs: the typed API's fast path
    for slices of fixed-size elements (length first, element bytes copied: `marshalSliceFastM`), the element-wise path with
    placeholder and back-patching shared by the traits and the Param API (`marshalM`), and the Param entry point with its
    nesting guard (`marshalParam`, when it accepts) all append exactly `enc`. (That every Rust API behaves like one of these
    mechanisms is the correspondence run; derive and macros generate calls to the trait mechanism.) -/
theorem apis_encode_identically (bo : ByteOrder) (buf : List UInt8) :
    (∀ (b : Base) (k : Nat) (ns : List Nat), fastElem b = true → b.fixedSize = some k → (∀ n ∈ ns, n < 256 ^ k) →
      marshalSliceFastM bo b k ns buf = marshalM bo (.array (.base b)) (.arr (ns.map Val.num)) buf) ∧
    (∀ (t : Ty) (v : Val) (out : List UInt8), marshalParam bo t v buf = some out →
      marshalM bo t v buf = some out ∧ ∃ bs, enc bo buf.length t v = some bs ∧ out = buf ++ bs) := by
  constructor
  · intro b k ns hb hk hn
    rw [marshalSliceFastM_eq_enc bo b k ns buf hb hk hn, marshalM_eq_enc]
  · intro t v out h
    unfold marshalParam at h
    split at h
    · refine ⟨h, ?_⟩
      rw [marshalM_eq_enc] at h
      cases he : enc bo buf.length t v with
      | none => simp [he] at h
      | some bs => exact ⟨bs, rfl, by simpa [he] using h.symm⟩
    · simp at h

/-- Each decoder returns the value any encoder wrote: decode ∘ encode = id across APIs (C01/C03). -/
theorem apis_cross_decode (bo : ByteOrder) (t : Ty) (v : Val) (pre bs suf : List UInt8) (nfds : Nat)
    (h : enc bo pre.length t v = some bs) (hd : depthOf t v ≤ maxDepth) (hfd : fdsBelow nfds t v = true) :
    unmarshal bo (pre ++ (bs ++ suf)) nfds pre.length t = some (v, pre.length + bs.length) :=
  roundtrip bo t v pre bs suf nfds h hd hfd

/-- A derived enum decodes exactly the variants whose signature is one of its cases — to the payload the
    generic variant decoder sees, consuming the same bytes — and reports an error for every other variant. -/
theorem derive_enum_is_variant_of_case (bo : ByteOrder) (buf : List UInt8) (nfds : Option Nat)
    (cases : List Ty) (hc : ∀ t ∈ cases, variantTypeOk t = true) (off lim i : Nat) (v : Val) (o' : Nat) :
    decDerive bo buf nfds cases off lim = some (i, v, o') ↔
      ∃ t, findCase cases (sigBytes t) = some (i, t) ∧
        dec bo buf nfds maxDepth .variant off lim = some (.variant t v, o') :=
  decDerive_iff bo buf nfds cases hc off lim i v o'

/-- A macro enum facing a case it does not know skips exactly that value: `Catchall(t)` ending at `o'`
    iff the bytes are a valid variant of a type `t` outside its cases ending at `o'` — so whatever follows
    in a larger body is read from the right place. -/
theorem catchall_skips_exactly (bo : ByteOrder) (buf : List UInt8) (nfds : Option Nat) (cases : List Ty)
    (off lim : Nat) (t : Ty) (o' : Nat) :
    decCatchall bo buf nfds cases off lim = some (.catchall t, o') ↔
      (findCase cases (sigBytes t) = none ∧
       ∃ v, dec bo buf none maxDepth .variant off lim = some (.variant t v, o')) :=
  decCatchall_unknown_iff bo buf nfds cases off lim t o'

/-- `has_sig` (typed traits, tuples, derived structs) never panics on the signature of a well-formed
    single type and answers exactly whether it is the type's own signature. In particular a derived type
    asked to match a different struct signature (shorter, longer, other fields) reports a mismatch. -/
theorem has_sig_exact (t t0 : Ty) (ht : t.wf = true) (h0 : t0.wf = true) :
    (hasSig t t0.toStr = some true ↔ t = t0) ∧ (hasSig t t0.toStr = some false ↔ t ≠ t0) ∧
    hasSig t t0.toStr ≠ none := by
  rw [hasSig_exact t t0 ht h0]
  by_cases h : t = t0
  · subst h; simp
  · have : t.toStr ≠ t0.toStr := fun hs => h (toStr_injective t t0 ht h0 hs)
    simp [h, this]

-- non-vacuity
example : hasSig (.struct [.base .u32, .base .string]) "(us)".toList = some true := by decide +kernel
example : hasSig (.struct [.base .u32, .base .string]) "(u)".toList = some false := by decide +kernel
example : hasSig (.struct [.base .u32]) "(us)".toList = some false := by decide +kernel
example : hasSig (.array (.base .byte)) "a{sv}".toList = some false := by decide +kernel

end Rustbus.Api

#print axioms Rustbus.Api.apis_encode_identically
#print axioms Rustbus.Api.apis_cross_decode
#print axioms Rustbus.Api.derive_enum_is_variant_of_case
#print axioms Rustbus.Api.catchall_skips_exactly
#print axioms Rustbus.Api.has_sig_exact
