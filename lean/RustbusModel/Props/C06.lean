import RustbusModel.Lemmas.Header
/-!
C06 — Header decoding accepts exactly valid headers and skips unknown fields.
-/
namespace Rustbus.Header
open Rustbus Rustbus.Bytes Rustbus.Wire Rustbus.Spec.Wire Rustbus.Spec.Header

/-- The fixed part: accepted exactly for a known endianness flag, message type 1–4, protocol version 1
    and a non-zero serial; the decoded values are what the bytes say. -/
theorem fixed_iff_valid (buf : List UInt8) (fx : Fixed) :
    decodeFixed buf = some fx ↔ (12 ≤ buf.length ∧ fixedOk fx ∧ slice buf 0 12 = fixedBytes fx) :=
  decodeFixed_iff buf fx

/-- For ARBITRARY bytes: header decoding succeeds (with fixed part `fx`, fields `fs`, `used` bytes) exactly
    when the bytes start with a spec-valid header — valid fixed part, a well-formed `a(yv)` field array in
    which every known field has its prescribed value type and a valid value, unknown codes ≥ 10 carry any
    valid variant, no code 0, no known field twice, the fields required for the message type present —
    and `fs` are exactly the known fields the bytes denote, in order. -/
theorem decode_iff_valid (buf : List UInt8) (fx : Fixed) (fs : List Field) (used : Nat) :
    (decodeHeader buf = some (fx, fs, used) ∧ used - 16 ≤ maxArrayLen) ↔ ValidHeader buf fx fs used :=
  decodeHeader_iff buf fx fs used

/-- Unknown fields are skipped without disturbing the others: two valid headers whose entry lists differ
    only by entries with unknown codes decode to the same known fields. Stated on the denotation:
    inserting an allowed unknown entry anywhere does not change `entriesFields`. -/
theorem unknown_skipped (es₁ es₂ : List Entry) (u : Entry) (hu : entryField u = some none) :
    entriesFields (es₁ ++ u :: es₂) = entriesFields (es₁ ++ es₂) := by
  induction es₁ with
  | nil => simp only [List.nil_append, entriesFields, hu]; cases entriesFields es₂ <;> rfl
  | cons e es ih => simp only [List.cons_append, entriesFields, ih]

/-- … and therefore the decoder returns the same fields for both headers. -/
theorem unknown_skipped_decode (buf buf' : List UInt8) (fx : Fixed) (fs : List Field) (used used' : Nat)
    (es₁ es₂ : List Entry) (u : Entry) (hu : entryField u = some none)
    (hfx : fixedOk fx) (h16 : 16 ≤ used) (hub : used ≤ buf.length) (h16' : 16 ≤ used') (hub' : used' ≤ buf'.length)
    (hfix : slice buf 0 12 = fixedBytes fx) (hfix' : slice buf' 0 12 = fixedBytes fx)
    (henc : enc fx.bo 12 fieldArrayTy (.arr ((es₁ ++ es₂).map entryVal)) = some (slice buf 12 (used - 12)))
    (henc' : enc fx.bo 12 fieldArrayTy (.arr ((es₁ ++ u :: es₂).map entryVal)) = some (slice buf' 12 (used' - 12)))
    (hfs : entriesFields (es₁ ++ es₂) = some fs) (hok : fieldsOk fx.typ fs = true) :
    (decodeHeader buf).map (·.2.1) = some fs ∧ (decodeHeader buf').map (·.2.1) = some fs := by
  have v1 : ValidHeader buf fx fs used := ⟨hfx, h16, hub, hfix, es₁ ++ es₂, henc, hfs, hok⟩
  have v2 : ValidHeader buf' fx fs used' :=
    ⟨hfx, h16', hub', hfix', es₁ ++ u :: es₂, henc', by rw [unknown_skipped es₁ es₂ u hu]; exact hfs, hok⟩
  have d1 := ((decode_iff_valid buf fx fs used).mpr v1).1
  have d2 := ((decode_iff_valid buf' fx fs used').mpr v2).1
  simp [d1, d2]

/-- The total message length announced to the receive loop equals header + padding + body length: for
    every decodable message (non-empty body) the frame size computed from ANY prefix of at least 16 bytes
    is the length of the whole message. -/
theorem frame_length (buf : List UInt8) (fx : Fixed) (fs : List Field) (body : List UInt8)
    (h : decodeMessage buf = some (fx, fs, body)) (hb : fx.bodyLen ≠ 0)
    (hlim : buf.length ≤ maxMessageLen) (hfl : valOf fx.bo (slice buf 12 4) ≤ maxArrayLen) :
    bytesNeeded buf = .bytes buf.length ∧ ∀ k, 16 ≤ k → bytesNeeded (buf.take k) = .bytes buf.length :=
  bytesNeeded_frame buf fx fs body h hb hlim hfl

/-- Nothing beyond the protocol's 128 MiB is ever announced to the receive loop. -/
theorem announced_within_limit (buf : List UInt8) (n : Nat) (h : bytesNeeded buf = .bytes n) :
    n ≤ maxMessageLen ∨ (buf.length < 16 ∧ n = 16) :=
  bytesNeeded_limits buf n h

end Rustbus.Header

#print axioms Rustbus.Header.fixed_iff_valid
#print axioms Rustbus.Header.decode_iff_valid
#print axioms Rustbus.Header.unknown_skipped
#print axioms Rustbus.Header.unknown_skipped_decode
#print axioms Rustbus.Header.frame_length
#print axioms Rustbus.Header.announced_within_limit
