import RustbusModel.Lemmas.Sig
/-!
C07 — Signature parsers accept exactly the D-Bus signature grammar and agree.
Property theorems only; helper lemmas are in Lemmas/Sig.lean, the grammar in Spec/Sig.lean.
Every theorem quantifies over **all** strings of Unicode scalar values.
-/
namespace Rustbus.Sig
open Rustbus Rustbus.Spec.Sig

/-- The structural parser accepts exactly the valid signatures and returns the types they denote. -/
theorem parse_iff_spec (s : List Char) (ts : List Ty) :
    parseDescription s = some ts ↔ Denotes s ts :=
  parseDescription_iff s ts

/-- The fast validator accepts exactly the valid signatures. -/
theorem validate_iff_spec (s : List Char) : validateSignature s = true ↔ Valid s :=
  validateSignature_iff s

/-- Both give the same verdict on every string. -/
theorem parsers_agree (s : List Char) :
    (parseDescription s).isSome = validateSignature s := by
  cases h : validateSignature s
  · cases hp : parseDescription s with
    | none => rfl
    | some ts =>
      have : Valid s := ⟨ts, (parse_iff_spec s ts).mp hp⟩
      rw [(validate_iff_spec s).mpr this] at h; cases h
  · obtain ⟨ts, hts⟩ := (validate_iff_spec s).mp h
    rw [(parse_iff_spec s ts).mpr hts]; rfl

/-- Printing a parsed signature reproduces the input. -/
theorem print_parse (s : List Char) (ts : List Ty) (h : parseDescription s = some ts) :
    Ty.listToStr ts = s :=
  ((parse_iff_spec s ts).mp h).2.1.symm

/-- Parsing a printed valid type list gives it back (the denotation is unique). -/
theorem parse_print (ts : List Ty) (hv : ValidTypes ts) (hl : (Ty.listToStr ts).length ≤ 255) :
    parseDescription (Ty.listToStr ts) = some ts :=
  (parse_iff_spec _ ts).mpr ⟨hl, rfl, hv⟩

/-- The splitter yields exactly the top-level complete types of a valid signature (and never hits
    its `unwrap`). -/
theorem iter_splits (s : List Char) (ts : List Ty) (h : Denotes s ts) :
    sigIter s = some (ts.map Ty.toStr) :=
  sigIter_of_denotes s ts h

/-- Boolean dict keys are accepted; bare dict entries and empty structs are rejected. -/
theorem bool_dict_key_ok : validateSignature "a{bs}".toList = true ∧
    (parseDescription "a{bs}".toList).isSome = true := by decide +kernel
theorem bare_dict_entry_rejected : validateSignature "{si}".toList = false ∧
    parseDescription "{si}".toList = none ∧ parseDescription "({si})".toList = none := by decide +kernel
theorem empty_struct_rejected : validateSignature "()".toList = false ∧
    parseDescription "()".toList = none := by decide +kernel

/-- depth boundaries: 32 levels accepted, 33 rejected, for arrays and for structs -/
theorem depth_boundary :
    validateSignature (List.replicate 32 'a' ++ ['y']) = true ∧
    validateSignature (List.replicate 33 'a' ++ ['y']) = false ∧
    validateSignature (List.replicate 32 '(' ++ ['y'] ++ List.replicate 32 ')') = true ∧
    validateSignature (List.replicate 33 '(' ++ ['y'] ++ List.replicate 33 ')') = false := by
  decide +kernel

end Rustbus.Sig

#print axioms Rustbus.Sig.parse_iff_spec
#print axioms Rustbus.Sig.validate_iff_spec
#print axioms Rustbus.Sig.parsers_agree
#print axioms Rustbus.Sig.print_parse
#print axioms Rustbus.Sig.parse_print
#print axioms Rustbus.Sig.iter_splits
#print axioms Rustbus.Sig.bool_dict_key_ok
#print axioms Rustbus.Sig.bare_dict_entry_rejected
#print axioms Rustbus.Sig.empty_struct_rejected
#print axioms Rustbus.Sig.depth_boundary
