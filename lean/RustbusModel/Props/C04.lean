import RustbusModel.Lemmas.DecCostWork
import RustbusModel.Lemmas.DecCostWindow
import RustbusModel.Lemmas.DecCostSlice
import RustbusModel.Lemmas.DecCostHeader
import RustbusModel.Lemmas.ApiHasSig
import RustbusModel.Props.C07
/-!
C04 — No input bytes can crash, hang or exhaust a decoder.

The decoders are the TOTAL functions `Wire.dec` (one model of `validate_raw`, the Param unmarshaller and the
typed unmarshallers, tied to the three implementations by the C03/C16 correspondence runs) and
`Header.decodeFixed / decodeHeader`. "Never panics / aborts" on the Rust side is: the implementation never
leaves this total model — that is what the C04 engine checks by running the real code in worker processes
(both byte orders, 8 memory alignments, optimised and debug-assertion builds).  What is PROVED here, for
ARBITRARY byte lists, all types, both byte orders:

1. every successful decode makes progress and stays inside its limit and the buffer; bytes at or beyond the
   limit cannot influence the result (every read is bounds-checked), also on the header side;
2. the element loops stop by themselves: the fuel the model gives them is never the reason for a rejection;
3. an instrumented copy of the decoder (`decW`) computes the same results, never nests deeper than the
   budget (64), and does work LINEAR in the number of input bytes — on success and on failure
   (nesting bombs, length bombs);
4. the `unsafe` slice fast path meets the safety contract of every unsafe call it reaches, for every buffer
   address, and returns exactly what the generic decoder returns;
5. no `unwrap` is reached: `SignatureIter`, `has_sig` and `get_param` only ever see validated signatures
   and answer on all of them.
-/
namespace Rustbus.C04
open Rustbus Rustbus.Bytes Rustbus.Wire Rustbus.Slice

/-! ## 1. in bounds, progress, no read outside the window -/

/-- Whatever the bytes: a value that is accepted occupies at least one byte (so no loop over values can
    stall), ends at or before the limit it was given, and that limit lies inside the buffer. -/
theorem dec_in_bounds (bo : ByteOrder) (buf : List UInt8) (nfds : Option Nat) (d : Nat) (t : Ty)
    (off lim : Nat) (v : Val) (o' : Nat) (h : dec bo buf nfds d t off lim = some (v, o')) :
    off < o' ∧ o' ≤ lim ∧ lim ≤ buf.length := by
  obtain ⟨h1, h2, h3, _⟩ := enc_dec bo buf nfds d t off lim v o' h
  exact ⟨h1, h2, h3⟩

/-- No read at or beyond the limit: two buffers that agree on their first `lim` bytes (they may differ in
    everything behind, including their length) give the same answer — value, end offset or rejection.
    So every read of the decoder is bounds-checked against `lim`; in particular nothing outside the
    buffer is ever looked at. -/
theorem dec_reads_only_below_limit (bo : ByteOrder) (buf buf' : List UInt8) (nfds : Option Nat) (d : Nat) (t : Ty)
    (off lim : Nat) (h : buf.take lim = buf'.take lim) :
    dec bo buf nfds d t off lim = dec bo buf' nfds d t off lim :=
  win_all bo nfds d buf buf' t off lim h

/-- A limit behind the end of the buffer is refused (an error), not read. -/
theorem dec_limit_beyond_buffer_rejected (bo : ByteOrder) (buf : List UInt8) (nfds : Option Nat) (d : Nat) (t : Ty)
    (off lim : Nat) (h : buf.length < lim) : dec bo buf nfds d t off lim = none := by
  cases hd : dec bo buf nfds d t off lim with
  | none => rfl
  | some p =>
    obtain ⟨v, o'⟩ := p
    have := dec_in_bounds bo buf nfds d t off lim v o' hd
    omega

/-- Raw validation of a value does not depend on what follows the value: cut the buffer after the `n`
    accepted bytes and append anything — the verdict and the length stay. -/
theorem validate_ignores_bytes_after_value (bo : ByteOrder) (buf : List UInt8) (off : Nat) (t : Ty) (n : Nat)
    (h : validate bo buf off t = some n) (tail : List UInt8) :
    validate bo (buf.take (off + n) ++ tail) off t = some n := by
  unfold validate at h
  cases hd : dec bo buf none maxDepth t off buf.length with
  | none => simp [hd] at h
  | some p =>
    obtain ⟨v, o'⟩ := p
    simp only [hd, Option.some.injEq] at h
    obtain ⟨h1, h2, _, he, hdp, _⟩ := enc_dec bo buf none maxDepth t off buf.length v o' hd
    have hon : off + n = o' := by omega
    obtain ⟨hdecomp, hlen⟩ := buf_decomp buf off n (by omega)
    have hsl : (slice buf off n).length = n := slice_length _ _ _ (by omega)
    have hn : o' - off = n := by omega
    rw [hn] at he
    have key := dec_enc bo t v (buf.take off) (slice buf off n) tail none maxDepth
      ((buf.take off).length + (slice buf off n).length + tail.length)
      (by rw [hlen]; exact he) hdp (by simp [Spec.Wire.fdsOk]) (by omega) (by omega)
    have e1 : buf.take (off + n) = buf.take off ++ slice buf off n := by
      simp only [slice]; rw [List.take_add]
    unfold validate
    rw [e1, List.append_assoc]
    have e2 : (buf.take off ++ (slice buf off n ++ tail)).length =
        (buf.take off).length + (slice buf off n).length + tail.length := by
      simp only [List.length_append]; omega
    rw [e2]
    rw [hlen] at key ⊢
    rw [key, hsl]
    simp

/-- Header side: `unmarshal_header` looks at the first 12 bytes only. -/
theorem decodeFixed_reads_12 (buf buf' : List UInt8) (h : buf.take 12 = buf'.take 12) :
    Header.decodeFixed buf = Header.decodeFixed buf' :=
  Header.decodeFixed_reads_12 buf buf' h

/-- Header side: an accepted header ends inside the buffer (after the 16 fixed bytes). -/
theorem decodeHeader_in_bounds (buf : List UInt8) (fx : Header.Fixed) (fs : List Header.Field) (used : Nat)
    (h : Header.decodeHeader buf = some (fx, fs, used)) : 16 ≤ used ∧ used ≤ buf.length := by
  unfold Header.decodeHeader at h
  cases h1 : Header.decodeFixed buf with
  | none => simp [h1] at h
  | some fx' =>
    simp only [h1] at h
    cases h2 : readNum fx'.bo buf 12 buf.length 4 with
    | none => simp [h2] at h
    | some len =>
      simp only [h2] at h
      split at h
      · cases h3 : Header.decodeFields fx'.bo buf 16 (16 + len) len with
        | none => simp [h3] at h
        | some fs' =>
          simp only [h3] at h
          split at h
          · simp only [Option.some.injEq, Prod.mk.injEq] at h
            omega
          · simp at h
      · simp at h

/-- Header side: decoding the header (fixed part and all header fields, unknown ones included) reads the
    `used` header bytes only: any buffer that starts with the same `used` bytes decodes to the same header. -/
theorem decodeHeader_reads_only_header (buf buf' : List UInt8) (fx : Header.Fixed) (fs : List Header.Field)
    (used : Nat) (hd : Header.decodeHeader buf = some (fx, fs, used)) (h : buf.take used = buf'.take used)
    (hlen : used ≤ buf'.length) :
    Header.decodeHeader buf' = some (fx, fs, used) :=
  Header.decodeHeader_agree buf buf' fx fs used hd h hlen

/-! ## 2. no hang: the loops terminate by progress, not by fuel -/

/-- The element loop of an array stops by itself: with ANY fuel of at least the number of bytes left it
    gives the same result as with exactly that number — because every element consumes at least one byte.
    (The model runs it with `fuel = len = lim - off`.) -/
theorem decList_fuel_sufficient (bo : ByteOrder) (buf : List UInt8) (nfds : Option Nat) (d : Nat) (e : Ty)
    (off lim fuel : Nat) (h : lim - off ≤ fuel) :
    decList bo buf nfds d e off lim fuel = decList bo buf nfds d e off lim (lim - off) :=
  decList_fuel bo buf nfds d e lim fuel (lim - off) off h (Nat.le_refl _)

/-- The same for the entry loop of a dict. -/
theorem decEntries_fuel_sufficient (bo : ByteOrder) (buf : List UInt8) (nfds : Option Nat) (d : Nat) (k : Base)
    (vt : Ty) (off lim fuel : Nat) (h : lim - off ≤ fuel) :
    decEntries bo buf nfds d k vt off lim fuel = decEntries bo buf nfds d k vt off lim (lim - off) :=
  decEntries_fuel bo buf nfds d k vt lim fuel (lim - off) off h (Nat.le_refl _)

/-- The same for the loop over the header fields. -/
theorem decodeFields_fuel_sufficient (bo : ByteOrder) (buf : List UInt8) (off lim fuel : Nat)
    (h : lim - off ≤ fuel) :
    Header.decodeFields bo buf off lim fuel = Header.decodeFields bo buf off lim (lim - off) :=
  Header.decodeFields_fuel bo buf lim fuel (lim - off) off h (Nat.le_refl _)

/-- Consequently the fuel is never the reason for a rejection: giving the loops of `dec` more fuel than the
    array's byte length changes nothing (stated for the array loop as `dec` calls it). -/
theorem array_fuel_never_binds (bo : ByteOrder) (buf : List UInt8) (nfds : Option Nat) (d : Nat) (e : Ty)
    (o2 len extra : Nat) :
    decList bo buf nfds d e o2 (o2 + len) (len + extra) = decList bo buf nfds d e o2 (o2 + len) len :=
  decList_fuel bo buf nfds d e (o2 + len) (len + extra) len o2 (by omega) (by omega)

/-! ## 3. bounded recursion and work -/

/-- (a) The instrumented decoder observes the same function: its result is `dec`'s, on all inputs. -/
theorem decW_same_result (bo : ByteOrder) (buf : List UInt8) (nfds : Option Nat) (d : Nat) (t : Ty)
    (off lim : Nat) : (decW bo buf nfds d t off lim).res = dec bo buf nfds d t off lim :=
  (same_all bo buf nfds d t off lim).1

/-- (b) The recursion never goes deeper than the budget, whatever the bytes say (nesting bombs). -/
theorem decW_depth_le_budget (bo : ByteOrder) (buf : List UInt8) (nfds : Option Nat) (d : Nat) (t : Ty)
    (off lim : Nat) : (decW bo buf nfds d t off lim).depth ≤ d :=
  (same_all bo buf nfds d t off lim).2

/-- (b') Raw validation (and unmarshalling, which runs with the same budget) never enters more than 64
    container levels. -/
theorem validate_depth_le_64 (bo : ByteOrder) (buf : List UInt8) (off : Nat) (t : Ty) :
    (validateW bo buf off t).res = (dec bo buf none maxDepth t off buf.length) ∧
    (validateW bo buf off t).depth ≤ 64 :=
  same_all bo buf none maxDepth t off buf.length

/-- (c) sharp form: the work is at most `size t + B·(d+1)·n` where `n` is the number of bytes CONSUMED if
    the decode succeeds and the size of the window if it fails, for every `B ≥ max (size t) 256`. Per
    nesting level every byte is charged at most `B` steps. -/
theorem decW_work_sharp (bo : ByteOrder) (buf : List UInt8) (nfds : Option Nat) (B d : Nat) (t : Ty)
    (off lim : Nat) (hB : 256 ≤ B) (ht : t.size ≤ B) :
    (decW bo buf nfds d t off lim).work ≤
      t.size + B * (d + 1) * (match dec bo buf nfds d t off lim with
                              | some (_, o') => o' - off
                              | none => lim - off) := by
  have := work_all bo buf nfds B hB d t off lim ht
  cases h : dec bo buf nfds d t off lim with
  | none => simpa only [h, span] using this
  | some p => obtain ⟨v, o'⟩ := p; simpa only [h, span] using this

/-- (c) The work of a decode — decoder calls, loop iterations, string bytes validated, signature characters
    parsed — is LINEAR in the number of bytes of its window, on success AND on failure, for every type,
    budget, byte order and byte string: `work ≤ max (size t) 256 · (1 + (d+1)·(lim - off))`. -/
theorem decW_work_linear (bo : ByteOrder) (buf : List UInt8) (nfds : Option Nat) (d : Nat) (t : Ty)
    (off lim : Nat) : (decW bo buf nfds d t off lim).work ≤ workBound t d (lim - off) := by
  have hw := work_all bo buf nfds (max t.size 256) (by omega) d t off lim (by omega)
  have hs := span_le (bo := bo) (buf := buf) (nfds := nfds) (d := d) t off lim
  have hm : max t.size 256 * (d + 1) * span (dec bo buf nfds d t off lim) off lim ≤
      max t.size 256 * (d + 1) * (lim - off) := Nat.mul_le_mul_left _ hs
  unfold workBound
  rw [Nat.mul_add, Nat.mul_one, ← Nat.mul_assoc]
  omega

/-- (c') Raw validation of a body of `n` bytes does at most `max (size t) 256 · (1 + 65·n)` steps. -/
theorem validate_work_linear (bo : ByteOrder) (buf : List UInt8) (off : Nat) (t : Ty) :
    (validateW bo buf off t).work ≤ max t.size 256 * (1 + 65 * (buf.length - off)) :=
  decW_work_linear bo buf none maxDepth t off buf.length

/-- (a)–(c) for a whole message body (`MarshalledMessageBody::validate`, the `get_param` loop): the
    instrumented run gives `decBody`'s verdict, never nests deeper than 64, and — a body signature has at
    most 255 characters, hence at most 255 type nodes — does at most `255 + 256·65·n` steps on `n` bytes. -/
theorem body_work_linear (bo : ByteOrder) (buf : List UInt8) (nfds : Option Nat) (ts : List Ty)
    (hs : (Ty.listToStr ts).length ≤ 255) :
    (decBodyW bo buf nfds ts 0).res = decBody bo buf nfds ts 0 ∧
    (decBodyW bo buf nfds ts 0).depth ≤ 64 ∧
    (decBodyW bo buf nfds ts 0).work ≤ 255 + 256 * 65 * buf.length := by
  have hsz := sizeList_le_toStr ts
  obtain ⟨h1, h2, h3⟩ := decBodyW_all bo buf nfds ts 0 256 (by omega) (by omega) (by omega)
  refine ⟨h1, h2, ?_⟩
  simp only [maxDepth, Nat.sub_zero] at h3
  omega

/-! ## 4. the unsafe slice fast path -/

/-- Every unsafe operation `Cow<[E]>::unmarshal` reaches meets its safety contract — for every buffer,
    every address `base` of the buffer, every offset, limit, element type and both byte orders:
    `from_raw_parts` only with an aligned pointer, exactly `len = cnt·size` bytes inside the buffer;
    `copy_nonoverlapping` only inside the source and inside the capacity just allocated, `set_len` only over
    initialised elements. -/
theorem cow_sites_ok (native : ByteOrder) (base : Nat) (bo : ByteOrder) (buf : List UInt8) (nfds : Option Nat)
    (d : Nat) (b : Base) (off lim : Nat) :
    ∀ s ∈ (cowSlice native base bo buf nfds d b off lim).sites, s.ok := by
  intro s hs
  unfold cowSlice at hs
  split at hs
  · rename_i size hv hm
    obtain ⟨hms, _, _, _, _, _⟩ := validSlice_facts hv
    rw [hms] at hm
    cases hm
    cases hsb : sliceBytes bo buf b off lim with
    | none => simp [hsb] at hs
    | some p =>
      obtain ⟨start, len⟩ := p
      obtain ⟨o, _, _, hmax, _, hmod, hl, hbl⟩ := sliceBytes_sound hsb
      have hcnt : len / b.align * b.align = len := Nat.div_mul_cancel (Nat.dvd_of_mod_eq_zero hmod)
      have hmx : maxArrayLen = 67108864 := rfl
      simp only [hsb] at hs
      split at hs
      · rename_i hal
        simp only [List.mem_singleton] at hs
        subst hs
        exact ⟨hal, hcnt, by omega, by omega⟩
      · simp only [List.mem_singleton] at hs
        subst hs
        exact ⟨by omega, by omega, Nat.le_refl _, by omega⟩
  · split at hs <;> simp at hs

/-- The same for `Vec<E>::unmarshal` (its fast path always copies). -/
theorem vec_sites_ok (native : ByteOrder) (bo : ByteOrder) (buf : List UInt8) (nfds : Option Nat)
    (d : Nat) (b : Base) (off lim : Nat) :
    ∀ s ∈ (vecSlice native bo buf nfds d b off lim).sites, s.ok := by
  intro s hs
  unfold vecSlice at hs
  split at hs
  · rename_i size hv hm
    obtain ⟨hms, _, _, _, _, _⟩ := validSlice_facts hv
    rw [hms] at hm
    cases hm
    cases hsb : sliceBytes bo buf b off lim with
    | none => simp [hsb] at hs
    | some p =>
      obtain ⟨start, len⟩ := p
      obtain ⟨o, _, _, hmax, _, hmod, hl, hbl⟩ := sliceBytes_sound hsb
      have hcnt : len / b.align * b.align = len := Nat.div_mul_cancel (Nat.dvd_of_mod_eq_zero hmod)
      simp only [hsb, List.mem_singleton] at hs
      subst hs
      exact ⟨by omega, by omega, Nat.le_refl _, by omega⟩
  · split at hs <;> simp at hs

/-- The unaligned case takes the copying branch: if the result is a borrow (`Cow::Borrowed`), then a
    `from_raw_parts` site with an aligned address was recorded and the element bytes start at an address
    that is a multiple of the element size; no borrow is ever produced otherwise. -/
theorem cow_borrow_only_if_aligned (native : ByteOrder) (base : Nat) (bo : ByteOrder) (buf : List UInt8)
    (nfds : Option Nat) (d : Nat) (b : Base) (off lim : Nat) (v : Val) (o' : Nat)
    (h : (cowSlice native base bo buf nfds d b off lim).res = some (v, o', .borrowed)) :
    ∃ start len, sliceBytes bo buf b off lim = some (start, len) ∧ (base + start) % b.align = 0 := by
  unfold cowSlice at h
  split at h
  · rename_i size hv hm
    obtain ⟨hms, _, _, _, _, _⟩ := validSlice_facts hv
    rw [hms] at hm
    cases hm
    cases hsb : sliceBytes bo buf b off lim with
    | none => simp [hsb] at h
    | some p =>
      obtain ⟨start, len⟩ := p
      simp only [hsb] at h
      split at h
      · rename_i hal; exact ⟨start, len, rfl, hal⟩
      · simp at h
  · split at h <;> simp at h

/-- The fast path cannot accept or produce anything the generic decoder would not: for every buffer, base
    address, byte order and element type, value and end offset of `Cow<[E]>::unmarshal` are exactly those of
    `dec` at type `array (base b)` (in particular both reject the same inputs). -/
theorem cow_eq_dec (native : ByteOrder) (base : Nat) (bo : ByteOrder) (buf : List UInt8) (nfds : Option Nat)
    (d : Nat) (b : Base) (off lim : Nat) :
    (cowSlice native base bo buf nfds d b off lim).res.map (fun r => (r.1, r.2.1)) =
      dec bo buf nfds (d + 1) (.array (.base b)) off lim := by
  unfold cowSlice
  split
  · rename_i size hv hm
    obtain ⟨hms, _, _, _, _, _⟩ := validSlice_facts hv
    rw [hms] at hm
    cases hm
    cases hsb : sliceBytes bo buf b off lim with
    | none => simp only [Option.map_none]; exact (dec_array_none_of_sliceBytes nfds d hv hsb).symm
    | some p =>
      obtain ⟨start, len⟩ := p
      rw [dec_array_of_sliceBytes nfds d hv hsb]
      simp only []
      split <;> rfl
  · cases dec bo buf nfds (d + 1) (.array (.base b)) off lim with
    | none => rfl
    | some p => rfl

/-- The same for `Vec<E>::unmarshal`. -/
theorem vec_eq_dec (native : ByteOrder) (bo : ByteOrder) (buf : List UInt8) (nfds : Option Nat)
    (d : Nat) (b : Base) (off lim : Nat) :
    (vecSlice native bo buf nfds d b off lim).res.map (fun r => (r.1, r.2.1)) =
      dec bo buf nfds (d + 1) (.array (.base b)) off lim := by
  unfold vecSlice
  split
  · rename_i size hv hm
    obtain ⟨hms, _, _, _, _, _⟩ := validSlice_facts hv
    rw [hms] at hm
    cases hm
    cases hsb : sliceBytes bo buf b off lim with
    | none => simp only [Option.map_none]; exact (dec_array_none_of_sliceBytes nfds d hv hsb).symm
    | some p =>
      obtain ⟨start, len⟩ := p
      rw [dec_array_of_sliceBytes nfds d hv hsb]
      rfl
  · cases dec bo buf nfds (d + 1) (.array (.base b)) off lim with
    | none => rfl
    | some p => rfl

/-! ## 5. no `unwrap` is reached -/

/-- `SignatureIter` (whose `next` contains the `unwrap`) yields all pieces of every signature that passed
    `validate_signature` without panicking. -/
theorem sigIter_no_unwrap (s : List Char) (h : Sig.validateSignature s = true) :
    (Sig.sigIter s).isSome = true := by
  obtain ⟨ts, hts⟩ := (Sig.validate_iff_spec s).mp h
  rw [Sig.iter_splits s ts hts]; rfl

/-- `MessageBodyParser::get::<T>()`: every piece the iterator hands out for a validated body signature is
    the signature of one well-formed type, and `T::has_sig` answers on it (no panic) for EVERY modelled
    type `T` — basic types, arrays, dicts, tuples and derived structs (shorter, longer, different ones),
    variants. -/
theorem has_sig_no_panic (s : List Char) (h : Sig.validateSignature s = true) :
    ∃ pieces, Sig.sigIter s = some pieces ∧ ∀ p ∈ pieces, ∀ t : Ty, HasSig.hasSig t p ≠ none := by
  obtain ⟨ts, hts⟩ := (Sig.validate_iff_spec s).mp h
  refine ⟨ts.map Ty.toStr, Sig.iter_splits s ts hts, ?_⟩
  intro p hp t
  obtain ⟨t0, _, rfl⟩ := List.mem_map.mp hp
  rw [HasSig.hasSig_toStr]
  simp

/-- `MessageBodyParser::get_param()` only ever parses pieces of a validated signature, and
    `Type::parse_description` returns exactly one type for each of them: neither its `?` nor the
    `first()` (formerly `unwrap`) can fail. -/
theorem get_param_parses_valid_only (s : List Char) (h : Sig.validateSignature s = true) :
    ∃ pieces, Sig.sigIter s = some pieces ∧
      ∀ p ∈ pieces, Sig.validateSignature p = true ∧ ∃ t, Sig.parseDescription p = some [t] := by
  obtain ⟨ts, hl, hs, hv⟩ := (Sig.validate_iff_spec s).mp h
  refine ⟨ts.map Ty.toStr, Sig.iter_splits s ts ⟨hl, hs, hv⟩, ?_⟩
  intro p hp
  obtain ⟨t0, hm, rfl⟩ := List.mem_map.mp hp
  have hlen : (Ty.listToStr [t0]).length ≤ 255 := by
    have : ∀ (us : List Ty), t0 ∈ us → (Ty.toStr t0).length ≤ (Ty.listToStr us).length := by
      intro us
      induction us with
      | nil => intro h; cases h
      | cons u us ih =>
        intro h
        simp only [Ty.listToStr, List.length_append]
        rcases List.mem_cons.mp h with rfl | h'
        · omega
        · have := ih h'; omega
    have := this ts hm
    rw [listToStr_single]
    rw [hs] at hl
    omega
  have hvt : Spec.Sig.ValidTypes [t0] := by
    intro t ht
    rw [List.mem_singleton] at ht
    subst ht
    exact hv t hm
  have hd : Spec.Sig.Denotes (Ty.toStr t0) [t0] := ⟨by rw [← listToStr_single]; exact hlen, (listToStr_single t0).symm, hvt⟩
  exact ⟨(Sig.validate_iff_spec _).mpr ⟨[t0], hd⟩, t0, (Sig.parse_iff_spec _ _).mpr hd⟩

/-! ## non-vacuity -/

private theorem pv : Sig.parseDescription (latin1 [0x76]) = some [.variant] := by rfl
private theorem py : Sig.parseDescription (latin1 [0x79]) = some [.base .byte] := by rfl
private theorem dz (bo : ByteOrder) (buf : List UInt8) (nfds : Option Nat) (off lim : Nat) :
    dec bo buf nfds 0 .variant off lim = none := dec_zero _ _ _ _ _ _ (by intro b; simp)
private theorem dzW (bo : ByteOrder) (buf : List UInt8) (nfds : Option Nat) (off lim : Nat) :
    decW bo buf nfds 0 .variant off lim = ⟨none, 1, 0⟩ := decW_zero _ _ _ _ _ _ (by intro b; simp)

set_option linter.unusedSimpArgs false
/-- evaluates the decoders on concrete bytes (`dec` is defined by well-founded recursion, so the kernel
    cannot just compute it; the one-step unfolding lemmas can) -/
local macro "eval_dec" : tactic => `(tactic|
  simp (decide := true) [validate, validateW, maxDepth, dec_variant, dec_base, dec_array, decW_variant, decW_base,
    decW_array, decBase, decBaseWork, readNum, skipPad, slice, valOf, leVal, padLen, pv, py, Base.fixedSize,
    Base.align, Base.bound, allZero, maxArrayLen, Ty.align, cowSlice, sliceBytes, elems, validSlice, memSize,
    decList_zero, decList_succ, decListW_zero, decListW_succ, dz, dzW])

/-- a 3-level variant bomb `v(v(v(y)))`: accepted, 3 levels entered, 7 steps for 10 bytes -/
def bomb3 : List UInt8 := [1, 0x76, 0, 1, 0x76, 0, 1, 0x79, 0, 7]
example : validate .le bomb3 0 .variant = some 10 := by unfold bomb3; eval_dec
example : validateW .le bomb3 0 .variant =
    ⟨some (.variant .variant (.variant .variant (.variant (.base .byte) (.num 7))), 10), 7, 3⟩ := by
  unfold bomb3; eval_dec
/-- with a budget of 2 the same bytes are refused after entering 2 levels -/
example : dec .le bomb3 none 2 .variant 0 10 = none ∧ (decW .le bomb3 none 2 .variant 0 10).depth = 2 := by
  unfold bomb3; eval_dec
/-- an array that claims 2^32-1 bytes (and one that claims 64 MiB + 1): refused after one step -/
example : validateW .le [0xff, 0xff, 0xff, 0xff, 0, 0, 0, 0] 0 (.array (.base .u64)) = ⟨none, 1, 1⟩ := by eval_dec
example : validate .le [0x01, 0x00, 0x00, 0x04, 0, 0, 0, 0] 0 (.array (.base .byte)) = none := by eval_dec
/-- an array of two bytes: 2 elements + the final empty iteration + the array itself = 6 steps -/
example : validateW .le [2, 0, 0, 0, 5, 6] 0 (.array (.base .byte)) =
    ⟨some (.arr [.num 5, .num 6], 6), 6, 1⟩ := by eval_dec
/-- bytes behind the limit do not matter -/
example : dec .le [2, 0, 0, 0, 5, 6, 99] none 64 (.array (.base .byte)) 0 6 =
    dec .le [2, 0, 0, 0, 5, 6, 1, 2, 3] none 64 (.array (.base .byte)) 0 6 :=
  dec_reads_only_below_limit _ _ _ _ _ _ _ _ (by decide)
/-- one `u64` element: borrowed at an aligned base, copied at base 1 -/
def oneU64 : List UInt8 := [8, 0, 0, 0, 0, 0, 0, 0, 1, 2, 3, 4, 5, 6, 7, 8]
example : cowSlice .le 0 .le oneU64 none 0 .u64 0 16 =
    ⟨some (.arr [.num 0x0807060504030201], 16, .borrowed), [.fromRawParts 8 8 8 1 8 8 16]⟩ := by
  unfold oneU64; eval_dec
example : cowSlice .le 1 .le oneU64 none 0 .u64 0 16 =
    ⟨some (.arr [.num 0x0807060504030201], 16, .copied), [.copy 8 1 8 8 16 1]⟩ := by
  unfold oneU64; eval_dec
/-- the same bytes read as big endian announce 2^27 bytes: the generic path refuses, no unsafe site -/
example : cowSlice .le 0 .be oneU64 none 0 .u64 0 16 = ⟨none, []⟩ := by unfold oneU64; eval_dec
/-- a partial element (12 bytes of u64) is refused by the fast path before any unsafe site -/
example : cowSlice .le 0 .le [12, 0, 0, 0, 0, 0, 0, 0, 1, 2, 3, 4, 5, 6, 7, 8, 9, 10, 11, 12] none 0 .u64 0 20
    = ⟨none, []⟩ := by eval_dec
/-- a derived struct of two fields asked for a shorter / longer signature answers `false`, no panic -/
example : HasSig.hasSig (.struct [.base .u32, .base .string]) "(u)".toList = some false ∧
    HasSig.hasSig (.struct [.base .u32]) "(us)".toList = some false := by decide +kernel
example : Sig.sigIter "a{sv}(ii)v".toList = some ["a{sv}".toList, "(ii)".toList, "v".toList] := by
  decide +kernel

end Rustbus.C04

#print axioms Rustbus.C04.dec_in_bounds
#print axioms Rustbus.C04.dec_reads_only_below_limit
#print axioms Rustbus.C04.dec_limit_beyond_buffer_rejected
#print axioms Rustbus.C04.validate_ignores_bytes_after_value
#print axioms Rustbus.C04.decodeFixed_reads_12
#print axioms Rustbus.C04.decodeHeader_in_bounds
#print axioms Rustbus.C04.decodeHeader_reads_only_header
#print axioms Rustbus.C04.decList_fuel_sufficient
#print axioms Rustbus.C04.decEntries_fuel_sufficient
#print axioms Rustbus.C04.decodeFields_fuel_sufficient
#print axioms Rustbus.C04.array_fuel_never_binds
#print axioms Rustbus.C04.decW_same_result
#print axioms Rustbus.C04.decW_depth_le_budget
#print axioms Rustbus.C04.validate_depth_le_64
#print axioms Rustbus.C04.decW_work_sharp
#print axioms Rustbus.C04.decW_work_linear
#print axioms Rustbus.C04.validate_work_linear
#print axioms Rustbus.C04.body_work_linear
#print axioms Rustbus.C04.cow_sites_ok
#print axioms Rustbus.C04.vec_sites_ok
#print axioms Rustbus.C04.cow_borrow_only_if_aligned
#print axioms Rustbus.C04.cow_eq_dec
#print axioms Rustbus.C04.vec_eq_dec
#print axioms Rustbus.C04.sigIter_no_unwrap
#print axioms Rustbus.C04.has_sig_no_panic
#print axioms Rustbus.C04.get_param_parses_valid_only
