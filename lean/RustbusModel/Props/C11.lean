import RustbusModel.Lemmas.FdTableGlobal
/-!
C11 — Descriptors stay with their own message and are never leaked or double-closed.

Model: `Model/FdTable.lean` (process descriptor table, `UnixFd` cells with their `Arc` count, bodies,
the socket as a FIFO of messages carrying open-file identities). Vocabulary: `Spec/FdTable.lean`.
A history is any `List Op`; `run State.init ops` is the state after it. Caller actions outside the API's
ownership discipline (closing / wrapping a number the caller does not own, naming an object that does
not exist any more) are answered with `illegal` and change nothing, so all theorems really are about
ALL lists of operations. Two documented limits are part of the statements, not hidden: a receiver gets at
most `maxRecvFds = 10` descriptors per message, and `send` transmits the descriptors of the entries that
have not been taken out of the body (`rawFdsOf`).
-/
namespace Rustbus.FdTable

/-! ## the invariant -/

/-- The invariant holds in the initial state (nothing open, nothing created). -/
theorem inv_initial : Inv State.init := inv_init

/-- Every single operation (push, failed push with rollback, reset, drop, send, receive — also of a
    message the decoder refuses —, unmarshal, take, get, dup, clone, drop of a handle, and the caller's
    own open / close / wrap) preserves the invariant. -/
theorem inv_preserved (s : State) (op : Op) (h : Inv s) : Inv (step s op).1 := inv_step h op

/-- The invariant holds after every history. -/
theorem inv_all_histories (ops : List Op) : Inv (run State.init ops) := inv_run ops inv_init

/-- The global invariant in the words of the property: at any time, after any history, every descriptor the
    library itself created (duplicate made while marshalling, descriptor installed by a receive, `UnixFd::dup`)
    is in EXACTLY ONE of three states: open and owned by a cell that at least one live handle points to;
    taken (ownership went to the caller: no cell owns it, the library has not closed it, it is open iff the
    caller still owns it); closed exactly once by the library and owned by nobody. -/
theorem lib_descriptor_states (ops : List Op) (d : Nat) (hd : d ∈ (run State.init ops).lib) :
    (OwnedLive (run State.init ops) d ∧ ¬ TakenOut (run State.init ops) d ∧ ¬ ClosedOnce (run State.init ops) d) ∨
    (¬ OwnedLive (run State.init ops) d ∧ TakenOut (run State.init ops) d ∧ ¬ ClosedOnce (run State.init ops) d) ∨
    (¬ OwnedLive (run State.init ops) d ∧ ¬ TakenOut (run State.init ops) d ∧ ClosedOnce (run State.init ops) d) :=
  lib_states (inv_all_histories ops) hd

/-- The `Arc` count of every cell equals the number of live `UnixFd` values that point to it (handles in the
    caller's hands plus entries of descriptor lists), after any history: a cell is freed exactly when the
    last of them is dropped. -/
theorem refs_exact (ops : List Op) (c : Nat) (x : Cell) (hx : (run State.init ops).cells[c]? = some x) :
    x.refs = refCount (run State.init ops) c := by
  have := (inv_all_histories ops).cnt c x hx
  simpa using this

/-- No double close, after any history (including failed pushes, resets and drops): the error state (a
    `close` on a descriptor that is not open, an `Arc` count going below zero) is unreachable; the library
    closed no descriptor twice; everything it closed is closed; it never closed a descriptor the caller owns
    nor one that was taken. -/
theorem no_double_close (ops : List Op) :
    (run State.init ops).err = false ∧ (run State.init ops).libClosed.Nodup ∧
    ∀ d, d ∈ (run State.init ops).libClosed →
      d ∉ keys (run State.init ops).open ∧ d ∉ (run State.init ops).user ∧ d ∉ (run State.init ops).takenFds := by
  have h := inv_all_histories ops
  refine ⟨h.noErr, h.closedNodup, fun d hd => ⟨h.closedNotOpen d hd, fun hu => h.closedNotOpen d hd (h.userOpen d hu), fun ht => (h.takenOk d ht).1 hd⟩⟩

/-- Leak freedom: when, after any history, every handle, body and message has been dropped, the open
    descriptors are exactly the caller-owned ones (`caller_owned_changes` says which these are). -/
theorem leak_free (ops : List Op) (hd : AllDropped (run State.init ops)) :
    ∀ d, d ∈ keys (run State.init ops).open ↔ d ∈ (run State.init ops).user :=
  leak_free_of_inv (inv_all_histories ops) hd

/-- What "caller-owned" means: the set changes only by the caller's own actions and by `take_raw_fd`.
    After `op`, `d` is caller-owned iff it was before and `op` is not the caller closing it or giving it
    to a `UnixFd`, or the caller just opened it, or a `take_raw_fd` just returned it. Hence the caller-owned
    descriptors are those from `userOpen` plus those taken, minus those the caller closed or wrapped. -/
theorem caller_owned_changes (s : State) (op : Op) (d : Nat) :
    d ∈ (step s op).1.user ↔
      (d ∈ s.user ∧ ¬ ∃ r, (op = .userClose r ∨ op = .wrap r) ∧ s.raws[r]? = some d) ∨
      (∃ f, op = .userOpen f ∧ d = s.nextFd) ∨
      (∃ h, op = .take h ∧ (step s op).2 = .fd (some d)) :=
  user_step s op d

/-- A descriptor the caller owns is open and has never been closed by the library, after any history:
    nothing the library does (pushing it, dropping or resetting the body it was pushed into, …) closes it. -/
theorem caller_owned_stays_open (ops : List Op) (d : Nat) (hd : d ∈ (run State.init ops).user) :
    d ∈ keys (run State.init ops).open ∧ d ∉ (run State.init ops).libClosed := by
  have h := inv_all_histories ops
  exact ⟨h.userOpen d hd, fun hc => h.closedNotOpen d hc (h.userOpen d hd)⟩

/-- As long as the caller holds a handle, after any history, its cell is alive, and unless the descriptor
    was taken it is open, refers to a file, has not been closed, and is not caller-owned (the handle will
    close it). -/
theorem held_handle_open (ops : List Op) (h c : Nat)
    (hh : (run State.init ops).handles[h]? = some (some c)) :
    ∃ x, (run State.init ops).cells[c]? = some x ∧ 0 < x.refs ∧
      (x.taken = false → x.fd ∈ keys (run State.init ops).open ∧ x.fd ∉ (run State.init ops).libClosed ∧
        x.fd ∉ (run State.init ops).user ∧ ∃ f, lookupFd (run State.init ops).open x.fd = some f) := by
  obtain ⟨x, h1, h2, _, h4⟩ := held_handle (inv_all_histories ops) hh
  exact ⟨x, h1, h2, h4⟩

/-! ## pushing a descriptor -/

private theorem push_single_eq (s : State) (b h c f : Nat) (bd : Body) (x : Cell)
    (hb : s.bodies[b]? = some bd) (hlive : bd.live = true)
    (hh : s.handles[h]? = some (some c)) (hx : s.cells[c]? = some x) (htk : x.taken = false)
    (hf : lookupFd s.open x.fd = some f) :
    push s b [.handle h] =
      ({ s with «open» := s.open ++ [(s.nextFd, f)], nextFd := s.nextFd + 1, lib := s.lib ++ [s.nextFd], cells := s.cells ++ [⟨s.nextFd, false, 1⟩], bodies := s.bodies.set b ⟨bd.fds ++ [s.cells.length], bd.idx ++ [bd.fds.length], bd.live⟩ }, .ok) := by
  simp [push, hb, hlive, itemLegal, hh, pushLoop, pushItem, hx, htk, dupInto, hf, createOwned_eq]

private theorem push_single_raw_eq (s : State) (b r d f : Nat) (bd : Body)
    (hb : s.bodies[b]? = some bd) (hlive : bd.live = true)
    (hr : s.raws[r]? = some d) (hf : lookupFd s.open d = some f) :
    push s b [.raw r] =
      ({ s with «open» := s.open ++ [(s.nextFd, f)], nextFd := s.nextFd + 1, lib := s.lib ++ [s.nextFd], cells := s.cells ++ [⟨s.nextFd, false, 1⟩], bodies := s.bodies.set b ⟨bd.fds ++ [s.cells.length], bd.idx ++ [bd.fds.length], bd.live⟩ }, .ok) := by
  have hlt := lt_length_of_getElem? hr
  have hd : s.raws[r] = d := by
    rw [List.getElem?_eq_getElem hlt] at hr
    exact Option.some.inj hr
  simp [push, hb, hlive, itemLegal, hlt, pushLoop, pushItem, hd, dupInto, hf, createOwned_eq]

/-- `push_dups`: marshalling a handle `h` (whose descriptor has not been taken) into a live body `b`, in any
    state satisfying the invariant, succeeds and duplicates:
    * the caller's descriptor is still open, refers to the same file `f`, is still owned by the same cell
      with the same `Arc` count, the caller still has all its handles and its own descriptors, and the
      library closed nothing;
    * the body's descriptor list is `old ++ [new]`, where `new` is a new cell (one reference, not taken)
      for a FRESH descriptor (`s.nextFd`, not open before) that refers to the same open file `f` and is
      recorded as created by the library;
    * the index written into the body is `old.length`, the position of the duplicate in the list. -/
theorem push_dups (s : State) (hs : Inv s) (b h c : Nat) (bd : Body) (x : Cell)
    (hb : s.bodies[b]? = some bd) (hlive : bd.live = true)
    (hh : s.handles[h]? = some (some c)) (hx : s.cells[c]? = some x) (htk : x.taken = false) :
    ∃ f, lookupFd s.open x.fd = some f ∧ (push s b [.handle h]).2 = .ok ∧
      lookupFd (push s b [.handle h]).1.open x.fd = some f ∧
      (push s b [.handle h]).1.cells[c]? = some x ∧
      (push s b [.handle h]).1.handles = s.handles ∧ (push s b [.handle h]).1.user = s.user ∧
      (push s b [.handle h]).1.libClosed = s.libClosed ∧
      (push s b [.handle h]).1.bodies[b]? =
        some ⟨bd.fds ++ [s.cells.length], bd.idx ++ [bd.fds.length], bd.live⟩ ∧
      (push s b [.handle h]).1.cells[s.cells.length]? = some ⟨s.nextFd, false, 1⟩ ∧
      s.nextFd ∉ keys s.open ∧ lookupFd (push s b [.handle h]).1.open s.nextFd = some f ∧
      s.nextFd ∈ (push s b [.handle h]).1.lib := by
  obtain ⟨x', hx', _, _, h4⟩ := held_handle hs hh
  rw [hx] at hx'; simp only [Option.some.injEq] at hx'; subst hx'
  obtain ⟨_, _, _, f, hf⟩ := h4 htk
  have hfresh : s.nextFd ∉ keys s.open := fun hm => Nat.lt_irrefl _ (hs.bound _ hm)
  have hblt := lt_length_of_getElem? hb
  have hclt := lt_length_of_getElem? hx
  rw [push_single_eq s b h c f bd x hb hlive hh hx htk hf]
  refine ⟨f, hf, rfl, lookup_append_left _ hf, ?_, rfl, rfl, rfl, by simp [hblt], by simp,
    hfresh, lookup_append_fresh hfresh, by simp⟩
  simp only [getElem?_append_single, hclt, if_true]; exact hx

/-- The same for `&dyn AsRawFd`: pushing a raw number `d` that is open (for instance one the caller owns)
    duplicates it; `d` stays open, keeps its file, and stays caller-owned if it was. -/
theorem push_raw_dups (s : State) (hs : Inv s) (b r d f : Nat) (bd : Body)
    (hb : s.bodies[b]? = some bd) (hlive : bd.live = true)
    (hr : s.raws[r]? = some d) (hf : lookupFd s.open d = some f) :
    (push s b [.raw r]).2 = .ok ∧
      lookupFd (push s b [.raw r]).1.open d = some f ∧
      (push s b [.raw r]).1.user = s.user ∧ (push s b [.raw r]).1.libClosed = s.libClosed ∧
      (push s b [.raw r]).1.bodies[b]? =
        some ⟨bd.fds ++ [s.cells.length], bd.idx ++ [bd.fds.length], bd.live⟩ ∧
      (push s b [.raw r]).1.cells[s.cells.length]? = some ⟨s.nextFd, false, 1⟩ ∧
      s.nextFd ∉ keys s.open ∧ lookupFd (push s b [.raw r]).1.open s.nextFd = some f := by
  have hfresh : s.nextFd ∉ keys s.open := fun hm => Nat.lt_irrefl _ (hs.bound _ hm)
  have hblt := lt_length_of_getElem? hb
  rw [push_single_raw_eq s b r d f bd hb hlive hr hf]
  exact ⟨rfl, lookup_append_left _ hf, rfl, rfl, by simp [hblt], by simp, hfresh, lookup_append_fresh hfresh⟩

/-- A push call with any number of descriptor-carrying elements at any nesting position (`items` in
    marshalling order) that succeeds: the descriptor list is `old ++ news` with one new cell per element, the
    indices written are `old.length, old.length + 1, …` (each the position of its duplicate), every new cell
    holds one reference to a descriptor created after the call started that refers to the same open file as
    the element's source descriptor, all old cells, the caller's handles, raw numbers and descriptors are
    untouched and nothing was closed. -/
theorem push_many (s : State) (hs : Inv s) (b : Nat) (items : List Item) (bd : Body)
    (hb : s.bodies[b]? = some bd) (hok : (push s b items).2 = .ok) :
    ∃ news, news.length = items.length ∧
      (push s b items).1.bodies[b]? =
        some ⟨bd.fds ++ news, bd.idx ++ List.range' bd.fds.length news.length, bd.live⟩ ∧
      (push s b items).1.handles = s.handles ∧ (push s b items).1.raws = s.raws ∧
      (push s b items).1.user = s.user ∧ (push s b items).1.libClosed = s.libClosed ∧
      (∀ (c : Nat) (x : Cell), s.cells[c]? = some x → (push s b items).1.cells[c]? = some x) ∧
      (∀ d f, lookupFd s.open d = some f → lookupFd (push s b items).1.open d = some f) ∧
      (∀ (j c : Nat), news[j]? = some c → ∃ (it : Item) (d f fd : Nat), items[j]? = some it ∧
        itemSource (push s b items).1 it = some d ∧ lookupFd (push s b items).1.open d = some f ∧
        (push s b items).1.cells[c]? = some (Cell.mk fd false 1) ∧ s.nextFd ≤ fd ∧
        lookupFd (push s b items).1.open fd = some f) := by
  obtain ⟨news, hext, hlen, _, hsrc⟩ := pushLoop_ext b items s bd hb hs.bound
  have key : ∀ r, push s b items = r → r.2 = .ok → r.1 = (pushLoop s b items).1 ∧ (pushLoop s b items).2 = true := by
    intro r hp hr
    unfold push at hp
    rw [hb] at hp
    simp only at hp
    split at hp
    · subst hp; simp at hr
    · split at hp
      · next s1 hs1 => subst hp; simp [hs1]
      · split at hp <;> (subst hp; simp at hr)
  obtain ⟨heq, htrue⟩ := key _ rfl hok
  rw [heq]
  refine ⟨news, hlen htrue, hext.body, hext.handles, hext.raws, hext.user, hext.libClosed, hext.cells,
    hext.lookupMono, ?_⟩
  intro j c hj
  obtain ⟨it, d, f, fd, h1, h2, h3, h4, h5⟩ := hsrc j c hj
  exact ⟨it, d, f, fd, h1, h2, h3, h4, (hext.newFresh c _ (List.mem_of_getElem? hj) h4).1, h5⟩

/-- A push call that fails — an element whose handle was taken (`EmptyUnixFd`), a failing `dup`, or any other
    element that cannot be marshalled, after `k ≥ 0` descriptors were already duplicated — rolls back
    completely: all bodies (descriptor lists and index bytes), the caller's handles, raw numbers, own
    descriptors and taken descriptors are as before, every old cell is unchanged, and the SET of open
    descriptors is the same as before the call: each of the `k` duplicates has been closed (exactly once, by
    `no_double_close`), nothing else has. The invariant holds afterwards. -/
theorem push_fail_rolls_back (s : State) (hs : Inv s) (b : Nat) (items : List Item)
    (herr : (push s b items).2 = .err) :
    Inv (push s b items).1 ∧
    (push s b items).1.bodies = s.bodies ∧ (push s b items).1.handles = s.handles ∧
    (push s b items).1.raws = s.raws ∧ (push s b items).1.user = s.user ∧
    (push s b items).1.takenFds = s.takenFds ∧
    (∀ d, d ∈ keys (push s b items).1.open ↔ d ∈ keys s.open) ∧
    (∀ (c : Nat) (x : Cell), s.cells[c]? = some x → (push s b items).1.cells[c]? = some x) :=
  ⟨inv_push hs b items, push_err_restores hs b items herr⟩

/-- Whatever is done to a body — pushing into it (successfully or not), resetting it, dropping it, sending
    it — the caller keeps all its handles and raw numbers, its own descriptors stay its own, and every handle
    that had its descriptor still has it, alive and OPEN: closing or dropping the body never closes the
    caller's descriptor. -/
theorem body_ops_spare_caller (s : State) (hs : Inv s) (op : Op)
    (hop : (∃ b items, op = .push b items) ∨ (∃ b, op = .reset b) ∨ (∃ b, op = .dropBody b) ∨ (∃ b, op = .send b)) :
    (step s op).1.handles = s.handles ∧ (step s op).1.raws = s.raws ∧ (step s op).1.user = s.user ∧
    ∀ (h c : Nat) (x : Cell), s.handles[h]? = some (some c) → s.cells[c]? = some x → x.taken = false →
      ∃ x', (step s op).1.cells[c]? = some x' ∧ x'.fd = x.fd ∧ x'.taken = false ∧ 0 < x'.refs ∧
        x.fd ∈ keys (step s op).1.open := by
  have hinv := inv_step hs op
  have hk : Keep s (step s op).1 ∧ (step s op).1.user = s.user := by
    rcases hop with ⟨b, items, rfl⟩ | ⟨b, rfl⟩ | ⟨b, rfl⟩ | ⟨b, rfl⟩
    · exact ⟨keep_push s b items, (same_push s b items).user⟩
    · exact ⟨keep_reset s b, (same_reset s b).user⟩
    · exact ⟨keep_dropBody s b, (same_dropBody s b).user⟩
    · refine ⟨keep_send s b, ?_⟩
      simp only [step]; unfold send; split
      · rfl
      · split
        · rfl
        · split <;> rfl
  refine ⟨hk.1.handles, hk.1.raws, hk.2, ?_⟩
  intro h c x hh hx htk
  obtain ⟨x', hx', e1, e2⟩ := hk.1.cells c x hx
  have hh' : (step s op).1.handles[h]? = some (some c) := by rw [hk.1.handles]; exact hh
  obtain ⟨x'', hx'', hr, _, h4⟩ := held_handle hinv hh'
  rw [hx'] at hx''; simp only [Option.some.injEq] at hx''; subst hx''
  have htk' : x'.taken = false := by rw [e2]; exact htk
  exact ⟨x', hx', e1, htk', hr, by rw [← e1]; exact (h4 htk').1⟩

/-! ## sending -/

/-- `unix_fds_header`: sending a live body, in any state satisfying the invariant, never fails; the message
    put into the socket announces UNIX_FDS = the length of the body's descriptor list and carries the body's
    index bytes and, in order, the open files behind `get_raw_fds()` (the entries that were not taken out);
    the body keeps its descriptors (nothing else changes). If no entry was taken out — every history in
    which `take_raw_fd` is only used on the receiving side — the number of descriptors travelling equals
    UNIX_FDS and the `j`-th of them is the open file of the `j`-th entry. -/
theorem unix_fds_header (s : State) (hs : Inv s) (b : Nat) (bd : Body)
    (hb : s.bodies[b]? = some bd) (hlive : bd.live = true) :
    ∃ fl, filesOf s (rawFdsOf s bd.fds) = some fl ∧
      send s b = ({ s with wire := s.wire ++ [⟨fl, bd.fds.length, bd.idx, true⟩], enq := s.enq ++ [fl] }, .ok) ∧
      ((∀ c, c ∈ bd.fds → ∃ x, s.cells[c]? = some x ∧ x.taken = false) →
        fl.length = bd.fds.length ∧
        ∀ (j c : Nat), bd.fds[j]? = some c → ∃ x f, s.cells[c]? = some x ∧ fl[j]? = some f ∧
          lookupFd s.open x.fd = some f) := by
  obtain ⟨fl, h1, h2, h3⟩ := filesOf_spec s (rawFdsOf s bd.fds) (rawFdsOf_open hs hb)
  refine ⟨fl, h1, by simp [send, hb, hlive, h1], ?_⟩
  intro hunt
  obtain ⟨g1, g2⟩ := rawFdsOf_untaken s bd.fds hunt
  refine ⟨by rw [h2, g1], ?_⟩
  intro j c hj
  obtain ⟨x, hx, hraw⟩ := g2 j c hj
  obtain ⟨f, hf1, hf2⟩ := h3 j x.fd hraw
  exact ⟨x, f, hx, hf1, hf2⟩

/-! ## receiving -/

/-- `receive_same_files` (one message): when the message at the head of the socket is accepted, the new body
    gets — attached to itself and to no other body — one new cell per delivered file, in the same order as in
    the message (`m.files`, cut at the documented limit of 10): the `j`-th cell holds one reference to the
    fresh descriptor `s.nextFd + j`, which refers to the `j`-th open file of THAT message and is recorded as
    created by the library; the message's index bytes come with it; the rest of the socket (the other
    messages and their files) is untouched, as are all existing bodies, cells, handles and open descriptors. -/
theorem receive_same_files (s : State) (hs : Inv s) (m : Flight) (rest : List Flight)
    (hw : s.wire = m :: rest) (hv : m.valid = true) :
    (receive s).2 = .ok ∧ (receive s).1.wire = rest ∧
    ∃ cs, (receive s).1.bodies = s.bodies ++ [⟨cs, m.idx, true⟩] ∧
      cs.length = (m.files.take maxRecvFds).length ∧
      (∀ (j f : Nat), (m.files.take maxRecvFds)[j]? = some f → ∃ c, cs[j]? = some c ∧
        (receive s).1.cells[c]? = some (Cell.mk (s.nextFd + j) false 1) ∧
        lookupFd (receive s).1.open (s.nextFd + j) = some f ∧ (s.nextFd + j) ∈ (receive s).1.lib ∧
        (s.nextFd + j) ∉ keys s.open) ∧
      (∀ c, c ∈ cs → s.cells.length ≤ c) ∧
      (receive s).1.handles = s.handles ∧
      (∀ (c : Nat) (x : Cell), s.cells[c]? = some x → (receive s).1.cells[c]? = some x) ∧
      (∀ d f, lookupFd s.open d = some f → lookupFd (receive s).1.open d = some f) := by
  have hb : ∀ d, d ∈ keys ({ s with wire := rest, deq := s.deq ++ [m.files.take maxRecvFds] } : State).open →
      d < ({ s with wire := rest, deq := s.deq ++ [m.files.take maxRecvFds] } : State).nextFd := hs.bound
  obtain ⟨hi, _⟩ := installAll_spec (m.files.take maxRecvFds) { s with wire := rest, deq := s.deq ++ [m.files.take maxRecvFds] } hb
  have hws := same_installAll (m.files.take maxRecvFds) { s with wire := rest, deq := s.deq ++ [m.files.take maxRecvFds] }
  simp only [receive, hw, hv, if_true]
  refine ⟨trivial, hws.wire, _, by rw [hi.bodies], hi.len, ?_, hi.fresh, hi.handles, hi.cells, hi.lookupMono⟩
  intro j f hj
  obtain ⟨c, h1, h2, h3, h4⟩ := hi.each j f hj
  refine ⟨c, h1, h2, h3, h4, ?_⟩
  intro hm
  have := hs.bound _ hm
  omega

/-- A message that the decoder refuses after its descriptors were received (`unmarshal_next_message` fails):
    `get_next_message` returns an error, the message is consumed, and every descriptor that was installed for
    it has been closed again — the set of open descriptors, the bodies and the handles are as before. -/
theorem receive_refused_no_leak (s : State) (hs : Inv s) (m : Flight) (rest : List Flight)
    (hw : s.wire = m :: rest) (hv : m.valid = false) :
    (receive s).2 = .err ∧ (receive s).1.wire = rest ∧ (receive s).1.bodies = s.bodies ∧
    (receive s).1.handles = s.handles ∧ (∀ d, d ∈ keys (receive s).1.open ↔ d ∈ keys s.open) := by
  have hinv := inv_receive hs
  have hb : ∀ d, d ∈ keys ({ s with wire := rest, deq := s.deq ++ [m.files.take maxRecvFds] } : State).open →
      d < ({ s with wire := rest, deq := s.deq ++ [m.files.take maxRecvFds] } : State).nextFd := hs.bound
  obtain ⟨hi, _⟩ := installAll_spec (m.files.take maxRecvFds) { s with wire := rest, deq := s.deq ++ [m.files.take maxRecvFds] } hb
  have hws := same_installAll (m.files.take maxRecvFds) { s with wire := rest, deq := s.deq ++ [m.files.take maxRecvFds] }
  have hfr := dropRefs_frame (installAll { s with wire := rest, deq := s.deq ++ [m.files.take maxRecvFds] } (m.files.take maxRecvFds)).2 (installAll { s with wire := rest, deq := s.deq ++ [m.files.take maxRecvFds] } (m.files.take maxRecvFds)).1
  simp only [receive, hw, hv] at hinv ⊢
  obtain ⟨f1, f2, f3, _, f5, _⟩ := hfr
  have hbodies := f2.trans hi.bodies
  have hhandles := f1.trans hi.handles
  refine ⟨by simp, by simpa using f3.trans hws.wire, by simpa using hbodies, by simpa using hhandles, ?_⟩
  have hcells : ∀ (c : Nat) (x : Cell), s.cells[c]? = some x →
      (dropRefs (installAll { s with wire := rest, deq := s.deq ++ [m.files.take maxRecvFds] } (m.files.take maxRecvFds)).1 (installAll { s with wire := rest, deq := s.deq ++ [m.files.take maxRecvFds] } (m.files.take maxRecvFds)).2).cells[c]? = some x := by
    intro c x hx
    rw [dropRefs_other]
    · exact hi.cells c x hx
    · intro hm
      have := hi.fresh c hm
      have := lt_length_of_getElem? hx
      simp only at *
      omega
  have := open_same_of_holders_same hs (by simpa using hinv) hhandles hbodies (f5.trans hws.user) hcells
  simpa using this

/-- `receive_same_files` (association across any interleaving): after ANY history of sends (by the client or
    by the peer) and receives, mixed with all other operations, the socket is a FIFO of whole messages: what is
    still in flight is exactly what was put in and not yet taken out, in order, and the `k`-th message taken
    out was handed (up to the limit of 10) the file list of the `k`-th message put in — the descriptors of one
    message are never attached to another one. -/
theorem per_message_fifo (ops : List Op) :
    (run State.init ops).wire.map (·.files) = (run State.init ops).enq.drop (run State.init ops).deq.length ∧
    (run State.init ops).deq =
      ((run State.init ops).enq.take (run State.init ops).deq.length).map (·.take maxRecvFds) := by
  have := fifo_run ops fifo_init
  exact ⟨this.wire, this.deq⟩

/-- `unmarshalFd`: reading the `j`-th descriptor value of a live body whose index bytes say `i`:
    if `i` is not below the length of the descriptor list the result is an error and nothing changes
    (`BadFdIndex`); otherwise the caller gets a new handle on the `i`-th cell of THAT body's list — a clone
    (the `Arc` count goes up by one), no new descriptor, nothing else changes. -/
theorem unmarshal_index (s : State) (b j i : Nat) (bd : Body)
    (hb : s.bodies[b]? = some bd) (hlive : bd.live = true) (hi : bd.idx[j]? = some i) :
    (bd.fds.length ≤ i → unmarshalFd s b j = (s, .err)) ∧
    (∀ (c : Nat) (x : Cell), bd.fds[i]? = some c → s.cells[c]? = some x → 0 < x.refs →
      unmarshalFd s b j =
        ({ s with cells := s.cells.set c { x with refs := x.refs + 1 }, handles := s.handles ++ [some c] }, .ok)) := by
  constructor
  · intro hle
    have : bd.fds[i]? = none := List.getElem?_eq_none hle
    simp [unmarshalFd, hb, hlive, hi, this]
  · intro c x hc hx hr
    have : x.refs ≠ 0 := by omega
    simp [unmarshalFd, hb, hlive, hi, hc, incr, hx, this]

/-- After any history, every entry of every body's descriptor list (in particular: of a received message)
    is a living cell whose descriptor — unless somebody took it — is open, not closed, not caller-owned: the
    bound check of `unmarshal_index` is the only way `unmarshalFd` can fail, and the handle it returns is
    backed by an open descriptor. -/
theorem body_entries_alive (ops : List Op) (b i c : Nat) (bd : Body)
    (hb : (run State.init ops).bodies[b]? = some bd) (hc : bd.fds[i]? = some c) :
    ∃ x, (run State.init ops).cells[c]? = some x ∧ 0 < x.refs ∧
      (x.taken = false → x.fd ∈ keys (run State.init ops).open ∧ x.fd ∉ (run State.init ops).libClosed ∧
        x.fd ∉ (run State.init ops).user) :=
  body_entry (inv_all_histories ops) hb hc

/-! ## non-vacuity: a concrete history -/

/-- push two descriptors (one via a handle, one via `&dyn AsRawFd` nested anywhere), a third push that fails
    on a taken handle after one more `dup`, send, receive, take one of the received descriptors, drop
    everything, close what the caller owns -/
def demo : List Op :=
  [ .userOpen 7, .userOpen 8, .wrap 0,                 -- fd0 (file 7) in handle 0, fd1 (file 8) raw
    .cloneHandle 0, .newBody,
    .push 0 [.handle 0], .push 0 [.raw 1],             -- dups fd2 (file 7), fd3 (file 8); indices 0, 1
    .userOpen 9, .wrap 2, .cloneHandle 2, .take 3,     -- handle 2 is alive, its descriptor fd4 was taken
    .push 0 [.handle 0, .handle 2],                    -- dup fd5, then EmptyUnixFd: rollback closes fd5
    .send 0, .receive,                                 -- fd6 (file 7), fd7 (file 8) installed for body 1
    .unmarshalFd 1 1, .take 4,                         -- the second descriptor of the message: fd7, file 8
    .dropBody 0, .dropBody 1, .dropHandle 0, .dropHandle 1, .dropHandle 2 ]

example : ((runTrace State.init demo).map (·.2)) =
    [.ok, .ok, .ok, .ok, .ok, .ok, .ok, .ok, .ok, .ok, .fd (some 4), .err, .ok, .ok, .ok, .fd (some 7),
     .ok, .ok, .ok, .ok, .ok] := by decide

/-- the failed third push left the body with its two descriptors and indices 0, 1, and closed its duplicate -/
example : ((run State.init (demo.take 12)).bodies[0]?.map (fun b => (b.fds.length, b.idx))) = some (2, [0, 1]) ∧
    (run State.init (demo.take 12)).libClosed = [5] ∧
    keys (run State.init (demo.take 12)).open = [0, 1, 2, 3, 4] := by decide

/-- what travelled: UNIX_FDS = 2, files 7 and 8; the receiver's new descriptors 6, 7 refer to files 7, 8 -/
example : (run State.init (demo.take 13)).wire = [⟨[7, 8], 2, [0, 1], true⟩] ∧
    lookupFd (run State.init (demo.take 14)).open 6 = some 7 ∧
    lookupFd (run State.init (demo.take 14)).open 7 = some 8 := by decide

/-- at the end everything is dropped; open are exactly the caller-owned descriptors: fd1 (own), fd4 and fd7
    (taken); the library closed each of its other descriptors exactly once (and fd0, which the caller had
    handed to a `UnixFd`), and there was no error -/
example : AllDropped (run State.init demo) ∧ keys (run State.init demo).open = [1, 4, 7] ∧
    (run State.init demo).user = [1, 4, 7] ∧ (run State.init demo).libClosed = [5, 2, 3, 6, 0] ∧
    (run State.init demo).lib = [2, 3, 5, 6, 7] ∧ (run State.init demo).takenFds = [4, 7] ∧
    (run State.init demo).err = false := by
  refine ⟨⟨by decide, by decide⟩, by decide, by decide, by decide, by decide, by decide, by decide⟩

/-- an index beyond the list is an error: a peer message with one descriptor whose body says index 1 -/
example : ((runTrace State.init [.peerSend [3] [1, 0] true, .receive, .unmarshalFd 0 0, .unmarshalFd 0 1]).map (·.2)) =
    [.ok, .ok, .err, .ok] := by decide

/-- A `dup` the kernel refuses (the process has no descriptor left: EMFILE / ENFILE) changes nothing at all — no cell,
    no descriptor, no reference count, neither table — and reports an error; a push whose `dup` is refused is a failed
    push (`Item.bad`), for which `push_fail_rolls_back` says that everything duplicated for the earlier elements is
    closed again. -/
theorem refused_dup_changes_nothing (s : State) (h : Nat) :
    (step s (.dupHandleFail h)).1 = s ∧ ((step s (.dupHandleFail h)).2 = .err ∨ (step s (.dupHandleFail h)).2 = .illegal) := by
  simp only [step]
  refine ⟨dupHandleFail_state s h, ?_⟩
  unfold dupHandleFail
  split <;> simp

end Rustbus.FdTable

#print axioms Rustbus.FdTable.inv_initial
#print axioms Rustbus.FdTable.inv_preserved
#print axioms Rustbus.FdTable.inv_all_histories
#print axioms Rustbus.FdTable.lib_descriptor_states
#print axioms Rustbus.FdTable.refs_exact
#print axioms Rustbus.FdTable.no_double_close
#print axioms Rustbus.FdTable.leak_free
#print axioms Rustbus.FdTable.caller_owned_changes
#print axioms Rustbus.FdTable.caller_owned_stays_open
#print axioms Rustbus.FdTable.held_handle_open
#print axioms Rustbus.FdTable.push_dups
#print axioms Rustbus.FdTable.push_raw_dups
#print axioms Rustbus.FdTable.push_many
#print axioms Rustbus.FdTable.push_fail_rolls_back
#print axioms Rustbus.FdTable.body_ops_spare_caller
#print axioms Rustbus.FdTable.unix_fds_header
#print axioms Rustbus.FdTable.receive_same_files
#print axioms Rustbus.FdTable.receive_refused_no_leak
#print axioms Rustbus.FdTable.per_message_fifo
#print axioms Rustbus.FdTable.unmarshal_index
#print axioms Rustbus.FdTable.body_entries_alive
#print axioms Rustbus.FdTable.refused_dup_changes_nothing
