import RustbusModel.Lemmas.RecvRun
import RustbusModel.Lemmas.EndToEnd
import RustbusModel.Lemmas.RecvHangup
/-!
C09 — Incoming bytes are reassembled into exactly the sent messages under any chunking.

Model: `Model/Recv.lean` (`refill_buffer`, `read_once`, `read_whole_message`, `get_next_message` of
`connection/ll_conn.rs` over an explicit kernel/peer: a stream of cells, `arrive`/`deliver`/`wouldBlock`
events). A history (`List Action`) interleaves arriving bytes with client calls, each call with the list
of events that happen during it; all theorems quantify over ALL frame lists of well-formed frames
(`FrameOk`), ALL histories of `read_once` / guarded `read_once` / `get_next_message` calls in any order,
ALL kernel answers (any `k`, i.e. any short read). There is no restriction on how the client uses
`read_once`.

History of this package: an earlier version of the code called `recvmsg` with a zero-length buffer when
`read_once` found a complete message in the buffer; the kernel answers that with 0 bytes (reported as
`ConnectionClosed`) and hands over - i.e. loses - the descriptors of the NEXT message. `refill_buffer` now
returns `Ok(())` without reading when `max_buffer_size <= filled`. The model mirrors that early return;
`refill_issues_no_zero_length_recvmsg` shows that the zero-length `recvmsg` (still part of the kernel
model) can no longer be issued, `never_reports_closed` that `ConnectionClosed` is unreachable, and
`reassembly` now holds at full strength. `read_once_on_complete_buffer_is_noop` and
`read_once_on_complete_buffer_keeps_descriptors` (the history of the former counterexample) state the
repaired behaviour.

Kernel assumptions (trusted base): in-order byte stream; a `recvmsg` into a buffer of ≥ 1 byte returns
EAGAIN or 1..min(requested, queued) bytes; SCM_RIGHTS descriptors arrive with the first byte of the
`sendmsg` they were attached to (which byte of the frame that is, is the peer's choice: the placement `p`); at most 10 fit the control buffer; the peer does not hang up (a hang-up
is outside this model; then `ConnectionClosed` is the right answer).
-/
namespace Rustbus.Recv
open Rustbus Rustbus.Bytes Rustbus.Header

/- `p` is the peer's placement of each frame's descriptors: the byte of the frame they ride on (`FramesOk p`: inside
    the frame). All theorems hold for EVERY placement; rustbus as a sender uses `p = 0`. -/
variable {p : Frame → Nat}

/-- every reachable state satisfies the invariant for the frames not yet handed out -/
private theorem reach {frames : List Frame} {acts : List Action} {tr : List Res} {st : State} {w : World}
    (hok : FramesOk p frames) (h : run State.empty (World.init p frames) acts = (tr, st, w)) :
    Inv p (frames.drop (msgs tr).length) st w ∧ FramesOk p (frames.drop (msgs tr).length) ∧
    msgs tr = frames.take (msgs tr).length ∧ (msgs tr).length ≤ frames.length ∧
    ∀ r ∈ tr, r.good = true := by
  obtain ⟨todo, hI, hok', ht, hg⟩ := run_inv acts frames _ _ (inv_init frames) hok tr st w h
  have hd' : frames.drop (msgs tr).length = todo := by rw [ht]; simp
  have hk : frames.take (msgs tr).length = msgs tr := by rw [ht]; simp
  refine ⟨by rw [hd']; exact hI, by rw [hd']; exact hok', hk.symm, ?_, hg⟩
  have := congrArg List.length ht
  simp only [List.length_append] at this
  omega

/-- The size a header announces is fixed as soon as 16 bytes are buffered: it depends on nothing else. -/
theorem announcement_depends_on_first_16 (buf : List UInt8) (h : 16 ≤ buf.length) :
    bytesNeeded buf = bytesNeeded (buf.take 16) :=
  (bytesNeeded_take16 buf h).symm

/-- `refill_buffer` never hands the kernel an empty buffer (ANY state, ANY request bound): either the
    buffer already holds `max_buffer_size` bytes - then it returns `Ok(())`, reserves nothing, issues NO
    `recvmsg`, and state and socket are untouched - or it issues exactly one `recvmsg` whose buffer has at
    least one byte. The zero-length `recvmsg` of the kernel model (0 bytes, steals the next message's
    descriptors) is therefore unreachable. -/
theorem refill_issues_no_zero_length_recvmsg (st : State) (w : World) (maxBuf k : Nat) :
    (maxBuf ≤ st.buf.length ∧ refill st w maxBuf k = (.readOk, st, w)) ∨
    (st.buf.length < maxBuf ∧ 0 < (reserve st maxBuf).cap - st.buf.length ∧
      refill st w maxBuf k =
        match recvmsg w ((reserve st maxBuf).cap - st.buf.length) k with
        | (.eagain, w') => (.timedOut, reserve st maxBuf, w')
        | (.data bytes fds, w') =>
          if bytes.isEmpty then (.closed, reserve st maxBuf, w')
          else (.readOk, { reserve st maxBuf with buf := st.buf ++ bytes, fds := st.fds ++ fds }, w')) := by
  by_cases hfull : maxBuf ≤ st.buf.length
  · exact Or.inl ⟨hfull, refill_full hfull w k⟩
  · exact Or.inr ⟨by omega, refill_request_pos st maxBuf hfull, refill_read hfull w k⟩

/-- No call ever reports `ConnectionClosed` (the peer of the model stays connected): in EVERY history, from
    ANY state, over ANY stream - well-formed frames or not. -/
theorem never_reports_closed (st : State) (w : World) (acts : List Action) :
    Res.closed ∉ (run st w acts).1 :=
  run_ne_closed acts st w

/-- Reassembly at FULL strength: for every list of well-formed frames and EVERY history of arrivals and
    client calls - `get_next_message`, guarded `read_once` and raw `read_once` in any order, also on a buffer
    that already holds a complete message - under ALL kernel answers: the messages returned so far are exactly
    the first `n` frames, in order, each with exactly its own bytes and exactly its own descriptors, where
    `n` is the number of completing `get_next_message` calls; every byte and every descriptor of the
    remaining frames is either in the buffer / `fds_in` or still unread in the socket (nothing lost, nothing
    duplicated, whatever timed out in between); no call failed and none reported a closed connection. -/
theorem reassembly (frames : List Frame) (acts : List Action) (tr : List Res) (st : State) (w : World)
    (hok : FramesOk p frames) (h : run State.empty (World.init p frames) acts = (tr, st, w)) :
    ∃ n, n = (msgs tr).length ∧ n ≤ frames.length ∧ msgs tr = frames.take n ∧
      (stream p (frames.drop n)).map Prod.fst = st.buf ++ w.rest.map Prod.fst ∧
      (stream p (frames.drop n)).flatMap Prod.snd = st.fds ++ w.rest.flatMap Prod.snd ∧
      (∀ r ∈ tr, r.good = true) ∧ Res.closed ∉ tr := by
  obtain ⟨hI, _, hk, hle, hg⟩ := reach hok h
  obtain ⟨hc1, hc2⟩ := inv_conservation hI
  refine ⟨_, rfl, hle, hk, hc1, hc2, hg, ?_⟩
  intro hm
  have := hg _ hm
  simp [Res.good] at this

/-- The key invariant, at every point of every history: the buffer is a prefix of the CURRENT frame (it
    never contains a byte of the next one), `fds_in` holds exactly the current frame's descriptors once the
    byte they ride on is in (none before), the announced size is the current frame's length (16 before the header
    is complete), the next `recvmsg` asks for no more than the rest of the current frame, and once the
    current frame is complete a `read_once` reads nothing at all. When no frame is left there is nothing to
    read. -/
theorem never_reads_past_frame (frames : List Frame) (acts : List Action) (tr : List Res) (st : State)
    (w : World) (hok : FramesOk p frames)
    (h : run State.empty (World.init p frames) acts = (tr, st, w)) :
    let todo := frames.drop (msgs tr).length
    let cur := hd todo
    st.buf <+: cur.bytes ∧
    st.fds = (if st.buf.length ≤ p cur then [] else cur.fds) ∧
    (∃ nd, bytesNeeded st.buf = .bytes nd ∧ nd = (if st.buf.length < 16 then 16 else cur.bytes.length) ∧
      (todo ≠ [] → (reserve st nd).cap - st.buf.length ≤ cur.bytes.length - st.buf.length)) ∧
    (todo ≠ [] → st.buf = cur.bytes →
      ∀ evs, readOnce st w evs = (.readOk, st, w.arrive (arrivals evs))) ∧
    (todo = [] → st.buf = [] ∧ w.rest = []) := by
  intro todo cur
  have hcur : cur = hd todo := rfl
  have htodo : todo = frames.drop (msgs tr).length := rfl
  clear_value cur todo
  subst hcur
  subst htodo
  obtain ⟨hI, hok', _, _, _⟩ := reach hok h
  refine ⟨?_, hI.fds, ⟨_, needed_of_inv hI hok', rfl, ?_⟩, ?_, ?_⟩
  · have := hI.buf
    rw [this]; exact List.take_prefix _ _
  · intro hne
    have h16 := (hd_ok hok' hne).1
    have hcap := hI.cap
    have hle := hI.le
    simp only [reserve]
    generalize maxGrowth = G
    split <;> omega
  · intro hne hb evs
    apply readOnce_whole
    rw [check_of_inv hI hok', if_pos ⟨by rw [hb], hne⟩]
  · intro hnil
    have hle := hI.le
    have hr := hI.rest
    rw [hnil] at hle hr
    rw [hd_nil_len] at hle
    have hb : st.buf = [] := List.length_eq_zero_iff.mp (by omega)
    refine ⟨hb, ?_⟩
    rw [hr, hb]; simp [hd, cells, cellsFrom, stream]

/-- Memory is committed for bytes that arrived, not for what a header claims: at every point of every
    history the buffer fits its reservation, the reservation never exceeds the current frame's length
    (16 while no frame is pending) and never exceeds `filled + 64 KiB` (the `MAX_GROWTH` step; 16 at least). -/
theorem capacity_bounded (frames : List Frame) (acts : List Action) (tr : List Res) (st : State)
    (w : World) (hok : FramesOk p frames)
    (h : run State.empty (World.init p frames) acts = (tr, st, w)) :
    st.buf.length ≤ st.cap ∧
    st.cap ≤ max 16 (hd (frames.drop (msgs tr).length)).bytes.length ∧
    st.cap ≤ max 16 (st.buf.length + maxGrowth) := by
  obtain ⟨hI, _, _, _, _⟩ := reach hok h
  exact ⟨hI.lenCap, hI.cap, hI.grow⟩

/-- One `refill_buffer` never reserves beyond `filled + 64 KiB` (any state, any request). -/
theorem reserve_growth_clamped (st : State) (maxBuf : Nat) :
    (reserve st maxBuf).cap ≤ max st.cap (st.buf.length + maxGrowth) ∧
    (reserve st maxBuf).cap ≤ max st.cap maxBuf := by
  simp only [reserve]
  generalize maxGrowth = G
  omega

/-- A `recvmsg` that would block is a no-op (ANY state, no assumption on the stream): buffer, descriptors
    and the stream position are unchanged, only the reservation may have grown, and the next
    `refill_buffer` behaves exactly as it would have without the timeout. (A `refill_buffer` on a buffer
    that is already full for its request does not time out: it returns `Ok(())`, see
    `refill_issues_no_zero_length_recvmsg`.) -/
theorem timeout_is_noop (st st' : State) (w w' : World) (nd k : Nat)
    (h : refill st w nd k = (.timedOut, st', w')) :
    st.buf.length < nd ∧ st'.buf = st.buf ∧ st'.fds = st.fds ∧ w' = w ∧
    ∀ k2, refill st' w' nd k2 = refill st w nd k2 := by
  have hlt : st.buf.length < nd := by
    by_cases hfull : nd ≤ st.buf.length
    · rw [refill_full hfull] at h; simp at h
    · omega
  obtain ⟨rfl, rfl⟩ := refill_timedOut h
  exact ⟨hlt, rfl, rfl, rfl, fun k2 => refill_after_timeout hlt _ k2⟩

/-- A call on an incomplete buffer during which nothing happens times out, and the rest of the history
    then yields exactly the results it would have yielded without that call (ANY state, ANY later history):
    a timeout loses nothing, duplicates nothing, and the next call continues where the previous stopped. -/
theorem timed_out_call_is_invisible (st : State) (w : World) (nd : Nat) (c : Call) (acts : List Action)
    (hc : check st = .need nd) :
    (run st w (.call c [] :: acts)).1 = .timedOut :: (run st w acts).1 := by
  simp only [run, step_nil_timedOut hc]
  rw [← run_reserve_trace acts st w hc]

/-- `read_once` on a buffer that already holds a complete message is a no-op (ANY state, ANY stream, ANY
    events during the call): it returns `Ok(())`; buffer, reservation and `fds_in` are unchanged; nothing
    is taken from the socket - the unread stream with the descriptors riding on it is untouched, the only
    change of the world is what the peer makes arrive during the call (if nothing arrives the world is
    unchanged); the rest of the history proceeds as if the call had not been made. -/
theorem read_once_on_complete_buffer_is_noop (st : State) (w : World) (evs : List Ev)
    (h : check st = .whole) :
    step .readOnce st w evs = (.readOk, st, w.arrive (arrivals evs)) ∧
    (w.arrive (arrivals evs)).rest = w.rest ∧
    (arrivals evs = 0 → step .readOnce st w evs = (.readOk, st, w)) ∧
    ∀ acts, run st w (.call .readOnce evs :: acts) =
      (.readOk :: (run st w (.arrive (arrivals evs) :: acts)).1, (run st w (.arrive (arrivals evs) :: acts)).2) := by
  have hs : step .readOnce st w evs = (.readOk, st, w.arrive (arrivals evs)) := readOnce_whole h w evs
  refine ⟨hs, rfl, ?_, ?_⟩
  · intro h0; rw [hs, h0, arrive_zero]
  · intro acts
    simp only [run, hs]

/-- The early return cannot make `read_whole_message` spin: whenever `buffer_contains_whole_message()` is
    false the request bound exceeds what is buffered (ANY state), so every `refill_buffer` of the loop does a
    real `recvmsg` (data or timeout) - the early return is taken only by `read_once` on a complete buffer. -/
theorem read_whole_message_always_reads (st : State) (w : World) (nd k : Nat) (h : check st = .need nd) :
    st.buf.length < nd ∧ bytesNeeded st.buf = .bytes nd ∧
    0 < (reserve st nd).cap - st.buf.length ∧ refill st w nd k ≠ (.readOk, st, w) := by
  have hlt := check_need_lt h
  have hfull : ¬ nd ≤ st.buf.length := by omega
  refine ⟨hlt, check_need_bytes h, refill_request_pos st nd hfull, ?_⟩
  intro he
  by_cases hk : k = 0
  · subst hk; rw [refill_k0 hlt] at he; simp at he
  · rw [refill_read hfull] at he
    cases hr : recvmsg w ((reserve st nd).cap - st.buf.length) k with
    | mk ans w1 =>
      rw [hr] at he
      cases ans with
      | eagain => simp at he
      | data bs fds =>
        have hne := recvmsg_data_ne_nil _ _ _ _ _ _ (refill_request_pos st nd hfull) hr
        cases bs with
        | nil => exact absurd rfl hne
        | cons b bs =>
          simp only [List.isEmpty_cons, Bool.false_eq_true, if_false, Prod.mk.injEq, true_and] at he
          have := congrArg (fun s => s.buf.length) he.1
          simp only [List.length_append, List.length_cons] at this
          omega

/-- Chunking is irrelevant: a history that has consumed the whole stream p (nothing buffered, nothing unread)
    has returned exactly the frames - whatever the chunking, the short reads, the timeouts, the calls used. -/
theorem complete_history_returns_all (frames : List Frame) (acts : List Action) (tr : List Res) (st : State)
    (w : World) (hok : FramesOk p frames)
    (h : run State.empty (World.init p frames) acts = (tr, st, w))
    (hb : st.buf = []) (hr : w.rest = []) : msgs tr = frames := by
  obtain ⟨hI, hok', hk, _, _⟩ := reach hok h
  have hw : check st ≠ .whole := by unfold check; rw [hb]; simp
  have := inv_rest_nil hI hok' hr hw
  rw [hk]
  have hlen : frames.length ≤ (msgs tr).length := List.drop_eq_nil_iff.mp this
  exact List.take_of_length_le hlen

/-- Any two complete histories over the same frames return the same messages. -/
theorem chunking_irrelevant (frames : List Frame) (a1 a2 : List Action) (tr1 tr2 : List Res)
    (st1 st2 : State) (w1 w2 : World) (hok : FramesOk p frames)
    (h1 : run State.empty (World.init p frames) a1 = (tr1, st1, w1))
    (h2 : run State.empty (World.init p frames) a2 = (tr2, st2, w2))
    (hb1 : st1.buf = []) (hr1 : w1.rest = []) (hb2 : st2.buf = []) (hr2 : w2.rest = []) :
    msgs tr1 = msgs tr2 := by
  rw [complete_history_returns_all frames a1 tr1 st1 w1 hok h1 hb1 hr1,
    complete_history_returns_all frames a2 tr2 st2 w2 hok h2 hb2 hr2]

/-- One byte at a time - every boundary inside the fixed header, the length words, the padding: the
    history in which each byte arrives alone and is followed by one `get_next_message` whose `recvmsg`
    returns that byte is complete and returns exactly the frames (so complete histories exist for every
    frame list). -/
theorem one_byte_at_a_time (frames : List Frame) (hok : FramesOk p frames) :
    ∃ tr st w, run State.empty (World.init p frames) (oneByte (totalLen frames)) = (tr, st, w) ∧
      msgs tr = frames ∧ st.buf = [] ∧ w.rest = [] := by
  cases h : run State.empty (World.init p frames) (oneByte (totalLen frames)) with
  | mk tr p =>
    cases p with
    | mk st w =>
      refine ⟨tr, st, w, rfl, ?_⟩
      have hw : check State.empty ≠ .whole := by simp [check, State.empty]
      exact oneByte_run (totalLen frames) frames _ _ (inv_init frames) hok hw
        (by simp [World.init, stream_length]) tr st w h

/-- An invalid fixed header or an oversized announcement (field array > 64 MiB, message > 128 MiB) is
    refused by every call before anything is read: buffer, descriptors, reservation and socket unchanged
    (ANY state, ANY events). -/
theorem refused_announcement_reads_nothing (st : State) (w : World) (c : Call) (evs : List Ev) :
    (bytesNeeded st.buf = .invalid → step c st w evs = (.invalid, st, w)) ∧
    (bytesNeeded st.buf = .tooLong → step c st w evs = (.tooLong, st, w)) :=
  ⟨fun h => step_invalid h c w evs, fun h => step_tooLong h c w evs⟩

/-- END TO END, across the models of C15 (body builder / parser), C05 (header marshalling), C18 (limits) and this one:
    a message whose body was built by pushing the values `ps`, marshalled by the send side (`hdr ++ body`), sent with
    any descriptors riding on any byte of it, is — under ANY chunking, short reads, timeouts and call pattern that
    consumes the stream — handed to the receiver exactly once, as exactly those bytes with exactly those descriptors;
    the bytes decode to the message's own fixed header, header fields and body; and the parser reads back from that
    body exactly the values that were pushed, in order, using all of it. -/
theorem end_to_end (bo : ByteOrder) (ps : List (Ty × Val)) (b : Body.Body)
    (hb : Body.pushAll (Body.Body.empty bo) (Body.plainItems ps) = some b)
    (hsig : Spec.Sig.Denotes b.sig (Body.itemsTypes ps))
    (hd : ∀ q ∈ ps, Spec.Wire.depthOf q.1 q.2 ≤ Wire.maxDepth ∧ Spec.Wire.fdsBelow 0 q.1 q.2 = true)
    (m : Msg) (hmb : m.body = b.buf) (serial : Nat)
    (hr : Spec.Header.msgInRange m serial) (hs : 0 < serial) (hrs : m.replySerial ≠ some 0)
    (hdr : List UInt8) (hm : marshalHeader m serial = some hdr)
    (fs : List Field) (hf : Spec.Header.entriesFields (Spec.Header.msgEntries m) = some fs) (hok : fieldsOk m.typ fs = true)
    (fds : List Nat) (hfd : fds.length ≤ cmsgCap) (hpos : p ⟨hdr ++ m.body, fds⟩ < (hdr ++ m.body).length)
    (acts : List Action) (tr : List Res) (st : State) (w : World)
    (h : run State.empty (World.init p [⟨hdr ++ m.body, fds⟩]) acts = (tr, st, w))
    (hbuf : st.buf = []) (hrest : w.rest = []) :
    msgs tr = [⟨hdr ++ m.body, fds⟩] ∧
    decodeMessage (hdr ++ m.body) = some (⟨m.bo, m.typ, m.flags, m.body.length, serial⟩, fs, b.buf) ∧
    Body.getAll b ⟨0, 0⟩ (Body.itemsTypes ps) = .ok (Body.itemsVals ps, ⟨b.buf.length, b.sig.length⟩) := by
  have hfo := marshalled_frameOk m serial hr hs hrs hdr hm fs hf hok fds hfd
  have hoks : FramesOk p [⟨hdr ++ m.body, fds⟩] := by
    intro f hfm
    simp only [List.mem_cons, List.not_mem_nil, or_false] at hfm
    subst hfm
    exact ⟨hfo, hpos⟩
  refine ⟨complete_history_returns_all _ acts tr st w hoks h hbuf hrest, ?_, Body.parser_roundtrip bo ps b hb hsig hd⟩
  have := marshal_decode m serial hr hs hrs hdr hm fs hf hok
  rw [this, hmb]

/-- **The peer hangs up.** After ANY history of calls and arrivals (timeouts, short reads, raw `read_once`, a frame read
    half-way), suppose everything the peer wrote has arrived in the socket (`w.rest.length ≤ w.avail`: it wrote whole frames
    and closed, nothing more will come). Then the caller's blocking `get_next_message` calls - one per remaining frame,
    each given POSITIVE kernel answers, as few as one byte per `recvmsg` - return exactly the remaining frames, in order,
    each with its own descriptors: together with what was returned before, exactly the frames the peer wrote. Nothing is
    left buffered, nothing unread: the hang-up is seen only by the `recvmsg` AFTER the last message (in the implementation
    a 0-byte read, reported as `ConnectionClosed`; the model's stream simply ends there). -/
theorem hangup_delivers_everything_written (frames : List Frame) (acts : List Action) (tr : List Res) (st : State)
    (w : World) (hok : FramesOk p frames)
    (h : run State.empty (World.init p frames) acts = (tr, st, w))
    (hup : AllArrived w) (kss : List (List Nat)) (hen : Enough (frames.drop (msgs tr).length) kss) :
    ∃ st' w', run State.empty (World.init p frames) (acts ++ drainCalls kss) =
        (tr ++ (frames.drop (msgs tr).length).map (fun f => Res.msg f.bytes f.fds), st', w') ∧
      msgs (tr ++ (frames.drop (msgs tr).length).map (fun f => Res.msg f.bytes f.fds)) = frames ∧
      st'.buf = [] ∧ st'.fds = [] ∧ w'.rest = [] := by
  obtain ⟨todo, hI, hok', ht, _⟩ := run_inv acts frames _ _ (inv_init frames) hok tr st w h
  have hd' : frames.drop (msgs tr).length = todo := by rw [ht]; simp
  rw [hd'] at hen ⊢
  obtain ⟨st', w', hr, hI'⟩ := drain_all_arrived todo kss st w hI hok' hup hen
  obtain ⟨hb, hf, hrest⟩ := nothing_left hI'
  refine ⟨st', w', ?_, ?_, hb, hf, hrest⟩
  · rw [run_append, h]
    simp only [hr]
  · rw [msgs_append, msgs_map_msg, ← ht]

/-! ### non-vacuity -/

-- the hypotheses of `end_to_end` are met by a concrete message: a signal with body (u32 7, "hi")
def e2ePs : List (Ty × Val) := [(Ty.base .u32, .num 7), (Ty.base .string, .str [104, 105])]
def e2eBody : Body.Body := ⟨.le, [7, 0, 0, 0, 2, 0, 0, 0, 104, 105, 0], ['u', 's'], 0⟩
example : (Body.pushAll (Body.Body.empty .le) (Body.plainItems e2ePs)).map (fun b => (b.buf, b.sig, b.nfds)) = some (e2eBody.buf, e2eBody.sig, 0) := by decide +kernel
def e2eMsg : Msg :=
  { bo := .le, typ := 4, flags := 0, replySerial := none,
    interface := some [97, 46, 98], destination := none, sender := none, member := some [77],
    path := some [47, 111], errorName := none, bodySig := [117, 115], body := e2eBody.buf, nfds := 0 }
example : (marshalHeader e2eMsg 5).isSome = true := by decide +kernel
example : (Spec.Header.entriesFields (Spec.Header.msgEntries e2eMsg)).isSome = true := by decide +kernel
example : Spec.Sig.Denotes e2eBody.sig (Body.itemsTypes e2ePs) := by
  refine ⟨by decide, by decide +kernel, ?_⟩
  unfold Spec.Sig.ValidTypes
  decide +kernel


/-- method call `b` on `/a`, serial 1, no body: 48 bytes -/

def exF1 : Frame :=
  { bytes := [108, 1, 0, 1, 0, 0, 0, 0, 1, 0, 0, 0, 27, 0, 0, 0, 3, 1, 115, 0, 1, 0, 0, 0, 98, 0, 0, 0, 0, 0, 0, 0,
      1, 1, 111, 0, 2, 0, 0, 0, 47, 97, 0, 0, 0, 0, 0, 0],
    fds := [] }

/-- method call `c` on `/`, serial 2, body `y` = 42, UNIX_FDS = 2: 65 bytes, descriptors 7 and 9 -/
def exF2 : Frame :=
  { bytes := [108, 1, 0, 1, 1, 0, 0, 0, 2, 0, 0, 0, 48, 0, 0, 0, 3, 1, 115, 0, 1, 0, 0, 0, 99, 0, 0, 0, 0, 0, 0, 0,
      1, 1, 111, 0, 1, 0, 0, 0, 47, 0, 0, 0, 0, 0, 0, 0, 8, 1, 103, 0, 1, 121, 0, 0, 9, 1, 117, 0, 2, 0, 0, 0, 42],
    fds := [7, 9] }

example : FrameOk exF1 ∧ FrameOk exF2 := by decide +kernel

def all : List Ev := [.deliver 1000, .deliver 1000, .deliver 1000, .deliver 1000]

/-- chunks of 5 (inside the fixed header), 9, 3 (ends inside the field-array length word... and the first
    field), 31 (ends exactly at the frame boundary), 20, 45: a timed-out `get_next_message`, a raw and a
    guarded `read_once`, short reads (2 of 3 queued bytes), then `get_next_message` calls -/
def exHistory : List Action :=
  [.arrive 5, .call .getNext all, .arrive 9, .call .readOnce [.deliver 9], .arrive 3,
   .call .readMore [.deliver 2], .call .getNext all, .call .getNext [.wouldBlock], .arrive 31,
   .call .getNext all, .arrive 20, .call .getNext all, .call .readMore [], .arrive 45, .call .getNext all,
   .call .getNext all]

example : (run State.empty (World.init (fun _ => 0) [exF1, exF2]) exHistory).1 =
    [.timedOut, .readOk, .readOk, .timedOut, .timedOut, .msg exF1.bytes [], .timedOut, .timedOut,
     .msg exF2.bytes [7, 9], .timedOut] := by decide +kernel

example : msgs (run State.empty (World.init (fun _ => 0) [exF1, exF2]) exHistory).1 = [exF1, exF2] := by decide +kernel

example : msgs (run State.empty (World.init (fun _ => 0) [exF1, exF2]) (oneByte 113)).1 = [exF1, exF2] := by
  decide +kernel

/-- a peer that attaches the descriptors of the second message to its 21st byte (inside the header fields) -/
def exLate : Frame → Nat := fun f => if f = exF2 then 20 else 0

example : FramesOk exLate [exF1, exF2] := by
  intro f hf
  simp only [List.mem_cons, List.not_mem_nil, or_false] at hf
  rcases hf with rfl | rfl <;> decide +kernel

example : (run State.empty (World.init exLate [exF1, exF2]) exHistory).1 =
    [.timedOut, .readOk, .readOk, .timedOut, .timedOut, .msg exF1.bytes [], .timedOut, .timedOut,
     .msg exF2.bytes [7, 9], .timedOut] := by decide +kernel

example : msgs (run State.empty (World.init exLate [exF1, exF2]) (oneByte 113)).1 = [exF1, exF2] := by
  decide +kernel

-- the descriptors are not there before their byte: after 20 bytes of the second message nothing, after 21 both
example : ((run State.empty (World.init exLate [exF2])
      [.arrive 20, .call .readOnce [.deliver 20], .call .readOnce [.deliver 20]]).2.1.fds,
    (run State.empty (World.init exLate [exF2])
      [.arrive 21, .call .readOnce [.deliver 21], .call .readOnce [.deliver 21]]).2.1.fds) = ([], [7, 9]) := by
  decide +kernel

/-- the second frame is 20 of 65 bytes in (its descriptors ride on byte 21) when the peer hangs up -/
def exHalf : List Action :=
  [.arrive 48, .call .getNext all, .arrive 20, .call .getNext all, .arrive 45]

example : (run State.empty (World.init exLate [exF1, exF2]) exHalf).1 = [.msg exF1.bytes [], .timedOut] ∧
    AllArrived (run State.empty (World.init exLate [exF1, exF2]) exHalf).2.2 ∧
    (run State.empty (World.init exLate [exF1, exF2]) exHalf).2.1.buf.length = 20 := by
  refine ⟨by decide +kernel, ?_, by decide +kernel⟩
  unfold AllArrived; decide +kernel

def exAnswers : List Nat := 1 :: 2 :: 1 :: List.replicate 62 1000

example : Enough ([exF1, exF2].drop 1) [exAnswers] := by
  refine ⟨?_, by decide +kernel, trivial⟩
  intro k hk
  simp only [exAnswers, List.mem_cons, List.mem_replicate] at hk
  omega

example : (run State.empty (World.init exLate [exF1, exF2]) (exHalf ++ drainCalls [exAnswers])).1 =
    [.msg exF1.bytes [], .timedOut, .msg exF2.bytes [7, 9]] := by decide +kernel

/-- The history that used to break reassembly: both frames queued, `read_once` three times, then two
    `get_next_message`. The third `read_once` finds a complete buffer: it returns `Ok(())` and reads nothing,
    and the second message is returned WITH its descriptors 7 and 9. -/
theorem read_once_on_complete_buffer_keeps_descriptors :
    (run State.empty (World.init (fun _ => 0) [exF1, exF2])
      [.arrive 113, .call .readOnce all, .call .readOnce all, .call .readOnce all, .call .getNext all,
       .call .getNext all]).1 =
    [.readOk, .readOk, .readOk, .msg exF1.bytes [], .msg exF2.bytes [7, 9]] := by decide +kernel

/-- ... and that third call changed neither the connection nor the socket -/
example :
    (run State.empty (World.init (fun _ => 0) [exF1, exF2])
      [.arrive 113, .call .readOnce all, .call .readOnce all, .call .readOnce all]).2 =
    (run State.empty (World.init (fun _ => 0) [exF1, exF2]) [.arrive 113, .call .readOnce all, .call .readOnce all]).2 := by
  decide +kernel

/-- the premise of `read_once_on_complete_buffer_is_noop` is reachable, with the next message queued -/
example :
    check (run State.empty (World.init (fun _ => 0) [exF1, exF2])
      [.arrive 113, .call .readOnce all, .call .readOnce all]).2.1 = .whole := by decide +kernel

/-- raw `read_once` calls on complete buffers sprinkled over a chunked history (chunks 48+1, 10, 54; the second
    message's first byte - the one its descriptors ride on - is queued while the first message is complete) -/
example : (run State.empty (World.init (fun _ => 0) [exF1, exF2])
      [.arrive 49, .call .readOnce all, .call .readOnce all, .call .readOnce [], .call .readOnce [.arrive 10, .deliver 7],
       .call .getNext all, .call .readOnce all, .arrive 54, .call .readMore all, .call .readOnce all,
       .call .readOnce [.wouldBlock], .call .getNext all, .call .readOnce all]).1 =
    [.readOk, .readOk, .readOk, .readOk, .msg exF1.bytes [], .readOk, .readOk, .readOk, .readOk,
     .msg exF2.bytes [7, 9], .timedOut] := by decide +kernel

/-- the zero-length `recvmsg` of the kernel model does steal descriptors - it is only never issued -/
example : recvmsg { rest := cells (fun _ => 0) exF2, avail := 65 } 0 5 =
    (.data [] [7, 9], { rest := (108, []) :: (cells (fun _ => 0) exF2).drop 1, avail := 65 }) := by decide +kernel

/-- refused announcements exist: a bad endianness byte, and a field array of 64 MiB + 1 -/
example : bytesNeeded (120 :: exF1.bytes.drop 1) = .invalid := by decide +kernel
example : bytesNeeded ([108, 1, 0, 1, 0, 0, 0, 0, 1, 0, 0, 0, 1, 0, 0, 4] ++ exF1.bytes.drop 16) = .tooLong := by
  decide +kernel

end Rustbus.Recv

#print axioms Rustbus.Recv.announcement_depends_on_first_16
#print axioms Rustbus.Recv.refill_issues_no_zero_length_recvmsg
#print axioms Rustbus.Recv.never_reports_closed
#print axioms Rustbus.Recv.reassembly
#print axioms Rustbus.Recv.never_reads_past_frame
#print axioms Rustbus.Recv.capacity_bounded
#print axioms Rustbus.Recv.reserve_growth_clamped
#print axioms Rustbus.Recv.timeout_is_noop
#print axioms Rustbus.Recv.timed_out_call_is_invisible
#print axioms Rustbus.Recv.read_once_on_complete_buffer_is_noop
#print axioms Rustbus.Recv.read_whole_message_always_reads
#print axioms Rustbus.Recv.complete_history_returns_all
#print axioms Rustbus.Recv.chunking_irrelevant
#print axioms Rustbus.Recv.one_byte_at_a_time
#print axioms Rustbus.Recv.refused_announcement_reads_nothing
#print axioms Rustbus.Recv.read_once_on_complete_buffer_keeps_descriptors
#print axioms Rustbus.Recv.end_to_end
#print axioms Rustbus.Recv.hangup_delivers_everything_written
