import RustbusModel.Lemmas.Send
import RustbusModel.Lemmas.SendWrite
import RustbusModel.Lemmas.SendHeader
/-!
C10 — A message reaches the wire exactly once and intact under any short-write pattern.

All theorems quantify over every message (`hdr`, `body`, `fds` arbitrary lists: empty body, empty
descriptor list, any lengths), every list of caller steps (each `write_once` outcome chosen by the
kernel: `accept k` for any `k`, `eagain`, `fail`; suspend/resume anywhere) and, for `write`, every
list of loop events. `Ctx.start m serial` is the context `send_message` builds.
-/
namespace Rustbus.Send
open Rustbus Rustbus.Bytes

/-- **wire_is_prefix.** Whatever the kernel and the caller do, the run never hits the slice panic, the
    counter never exceeds the total and is the sum of the counts `write_once` returned, and the bytes
    that reached the peer are exactly the first `bytes_sent` bytes of header ++ body: in order, nothing
    duplicated, nothing skipped. The next `sendmsg` is offered exactly the unsent rest (the two
    slices continue where the previous write stopped, also across the header/body seam), from the
    offsets `min(bytes_sent, |hdr|)` and `bytes_sent - |hdr|`. -/
theorem wire_is_prefix (m : Msg) (serial : Nat) (steps : List Step) :
    ∃ c w rs, run (Ctx.start m serial) Wire.empty steps = some (c, w, rs) ∧ c.msg = m ∧
      c.st.bytesSent ≤ m.total ∧
      c.st.bytesSent = sumCounts rs ∧
      w.bytes = (m.hdr ++ m.body).take c.st.bytesSent ∧
      ∃ o, offer m c.st = some o ∧
        o.hdrSlice ++ o.bodySlice = (m.hdr ++ m.body).drop c.st.bytesSent ∧
        w.bytes ++ (o.hdrSlice ++ o.bodySlice) = m.hdr ++ m.body ∧
        o.hdrOff = min c.st.bytesSent m.hdr.length ∧ o.bodyOff = c.st.bytesSent - m.hdr.length := by
  obtain ⟨c, w, rs, h1, hm, hi, _, _⟩ := run_inv steps (Ctx.start m serial) Wire.empty (inv_init m serial)
  have hs := run_sum steps _ _ _ _ _ h1
  simp only [Ctx.start, Nat.zero_add] at hs hi
  obtain ⟨o, ho, hcat, _, hoff, boff, _⟩ := offer_of_le m c.st hi.le
  refine ⟨c, w, rs, h1, hm, hi.le, hs, hi.bytes, o, ho, hcat, ?_, hoff, boff⟩
  rw [hi.bytes, hcat, List.take_append_drop]

/-- **fds_exactly_once.** At every reachable point the descriptors are attached to the next `sendmsg`
    iff `bytes_sent = 0`, which is exactly when they have not been transferred yet; over any run they
    are transferred at most once — never while nothing was accepted, and exactly once (all of them,
    in order, with the very first byte of the message) as soon as at least one byte was accepted. -/
theorem fds_exactly_once (m : Msg) (serial : Nat) (steps : List Step) :
    ∃ c w rs, run (Ctx.start m serial) Wire.empty steps = some (c, w, rs) ∧
      (∃ o, offer m c.st = some o ∧ o.fds = if c.st.bytesSent = 0 then m.fds else []) ∧
      (c.st.bytesSent = 0 → w.transfers = []) ∧
      (0 < c.st.bytesSent → m.fds ≠ [] → w.transfers = [(0, m.fds)]) ∧
      (m.fds = [] → w.transfers = []) ∧
      w.transfers.length ≤ 1 := by
  obtain ⟨c, w, rs, h1, _, hi, _, _⟩ := run_inv steps (Ctx.start m serial) Wire.empty (inv_init m serial)
  simp only [Ctx.start] at hi
  obtain ⟨o, ho, _, hfds, _⟩ := offer_of_le m c.st hi.le
  have ht := hi.transfers
  refine ⟨c, w, rs, h1, ⟨o, ho, hfds⟩, ?_, ?_, ?_, ?_⟩
  · intro h0; simpa [h0] using ht
  · intro hpos hf
    have : ¬ (c.st.bytesSent = 0) := by omega
    simpa [this, hf] using ht
  · intro hf; simpa [hf] using ht
  · rw [ht]; split <;> simp

/-- The corner of `fds_exactly_once`: a `write_once` that fails (EAGAIN or any other error) changes
    neither the state nor what the peer has. So after a FIRST call that failed `bytes_sent` is still 0
    and the descriptors are attached again on the retry — which is right, because the failed call
    transferred nothing: the run continues exactly as if the failed call had not been made. -/
theorem failed_call_is_invisible (m : Msg) (serial : Nat) (ev : Ev) (hev : ev = .eagain ∨ ev = .fail)
    (pre post : List Step) :
    ∃ r : Res, (r = .wouldBlock ∨ r = .error) ∧
      ∀ c w rs, run (Ctx.start m serial) Wire.empty (pre ++ post) = some (c, w, rs) →
        ∃ rs', run (Ctx.start m serial) Wire.empty (pre ++ .call ev :: post) = some (c, w, rs') ∧
          sumCounts rs' = sumCounts rs := by
  refine ⟨if ev = .eagain then Res.wouldBlock else Res.error, by split <;> simp, ?_⟩
  intro c w rs h
  rw [run_append] at h ⊢
  obtain ⟨c1, w1, rs1, h1, hm, hi, _, _⟩ := run_inv pre (Ctx.start m serial) Wire.empty (inv_init m serial)
  rw [h1] at h ⊢
  simp only at h ⊢
  have hstep : step c1 w1 (.call ev) = some (c1, w1, [if ev = .eagain then Res.wouldBlock else Res.error]) := by
    rcases hev with rfl | rfl
    · simp only [step, writeOnce_eagain c1.msg c1.st w1 (by rw [hm]; exact hi.le)]; rfl
    · simp only [step, writeOnce_fail c1.msg c1.st w1 (by rw [hm]; exact hi.le)]; rfl
  simp only [run, hstep]
  cases hr : run c1 w1 post with
  | none => simp [hr] at h
  | some q =>
    obtain ⟨c2, w2, rs2⟩ := q
    simp only [hr, Option.some.injEq, Prod.mk.injEq] at h
    obtain ⟨rfl, rfl, rfl⟩ := h
    refine ⟨_, rfl, ?_⟩
    rcases hev with rfl | rfl <;> simp [sumCounts, Res.count]

/-- EAGAIN on the very first call: state and wire are untouched and the retry offers the descriptors
    again together with the whole message. -/
theorem eagain_first_reattaches (m : Msg) (serial : Nat) :
    run (Ctx.start m serial) Wire.empty [.call .eagain] =
      some (Ctx.start m serial, Wire.empty, [.wouldBlock]) ∧
    offer m (Ctx.start m serial).st =
      some { hdrOff := 0, bodyOff := 0, hdrSlice := m.hdr, bodySlice := m.body, fds := m.fds } := by
  constructor
  · simp only [run, step, Ctx.start, writeOnce_eagain m ⟨0, serial⟩ Wire.empty (Nat.zero_le _)]
    rfl
  · simp [offer, Ctx.start]

/-- **complete_iff_all.** On every reachable state: `all_bytes_written` ⇔ `bytes_sent` is the total
    ⇔ the peer has received exactly header ++ body (and then the descriptors exactly once). -/
theorem complete_iff_all (m : Msg) (serial : Nat) (steps : List Step) :
    ∃ c w rs, run (Ctx.start m serial) Wire.empty steps = some (c, w, rs) ∧
      (allWritten m c.st = true ↔ c.st.bytesSent = m.hdr.length + m.body.length) ∧
      (c.st.bytesSent = m.hdr.length + m.body.length ↔ w.bytes = m.hdr ++ m.body) ∧
      (allWritten m c.st = true → 0 < m.total →
        w.transfers = if m.fds = [] then [] else [(0, m.fds)]) := by
  obtain ⟨c, w, rs, h1, _, hi, _, _⟩ := run_inv steps (Ctx.start m serial) Wire.empty (inv_init m serial)
  simp only [Ctx.start] at hi
  refine ⟨c, w, rs, h1, allWritten_iff m c.st, ?_, ?_⟩
  · rw [hi.bytes]
    constructor
    · intro h
      exact List.take_of_length_le (by simp; omega)
    · intro h
      have := congrArg List.length h
      have hle := hi.le
      simp only [List.length_take, List.length_append, Msg.total] at this hle
      omega
  · intro ha hpos
    have hb := (allWritten_iff m c.st).1 ha
    have : ¬ (c.st.bytesSent = 0) := by omega
    rw [hi.transfers]
    simp [this]

/-- `write` reports completion only when everything was written: from the fresh context, for every
    sequence of loop events, `Ok(serial)` implies that the counter is the total, the peer has exactly
    header ++ body, the descriptors were transferred exactly once, and the `Drop` that
    `finish_if_ok` runs does not panic; `write` itself never panics. -/
theorem write_done_only_when_complete (m : Msg) (serial : Nat) (evs : List WEv) :
    (write m ⟨0, serial⟩ Wire.empty evs).1 ≠ .panic ∧
    ∀ s, (write m ⟨0, serial⟩ Wire.empty evs).1 = .done s →
      s = serial ∧
      (write m ⟨0, serial⟩ Wire.empty evs).2.1.bytesSent = m.total ∧
      (write m ⟨0, serial⟩ Wire.empty evs).2.2.1.bytes = m.hdr ++ m.body ∧
      (0 < m.total → (write m ⟨0, serial⟩ Wire.empty evs).2.2.1.transfers =
        if m.fds = [] then [] else [(0, m.fds)]) := by
  obtain ⟨hi, _, _, hp, hd⟩ := write_inv m evs ⟨0, serial⟩ Wire.empty (inv_init m serial)
  refine ⟨hp, ?_⟩
  intro s hs
  obtain ⟨k1, k2⟩ := hd s hs
  refine ⟨k1, k2, ?_, ?_⟩
  · rw [hi.bytes, k2]
    exact List.take_of_length_le (by simp [Msg.total])
  · intro hpos
    rw [hi.transfers, k2]
    have : ¬ (m.total = 0) := by omega
    simp [this]

/-- The same for a `write` on a context that was driven by hand, suspended and resumed before: from
    every reachable state, `Ok(s)` means `s` is the context's serial and the peer has the whole message. -/
theorem write_after_any_history (m : Msg) (serial : Nat) (steps : List Step) (evs : List WEv) :
    ∃ c w rs, run (Ctx.start m serial) Wire.empty steps = some (c, w, rs) ∧
      (write m c.st w evs).1 ≠ .panic ∧
      ∀ s, (write m c.st w evs).1 = .done s →
        s = serial ∧ (write m c.st w evs).2.2.1.bytes = m.hdr ++ m.body := by
  obtain ⟨c, w, rs, h1, _, hi, hser, _⟩ := run_inv steps (Ctx.start m serial) Wire.empty (inv_init m serial)
  simp only [Ctx.start] at hi hser
  obtain ⟨gi, _, _, gp, gd⟩ := write_inv m evs c.st w hi
  refine ⟨c, w, rs, h1, gp, ?_⟩
  intro s hs
  obtain ⟨k1, k2⟩ := gd s hs
  refine ⟨by rw [k1, hser], ?_⟩
  rw [gi.bytes, k2]
  exact List.take_of_length_le (by simp [Msg.total])

/-- **resume_continues.** Suspension is transparent: `resume` of `into_progress` gives back the same
    context; inserting a suspend/resume at ANY point of ANY history changes neither the final state,
    nor what the peer receives, nor the values returned; and running a history in two parts with a
    suspend/resume in between is the same as running it in one piece. Holds from every state. -/
theorem resume_continues (c : Ctx) (w : Wire) (a b : List Step) :
    resume c.msg (intoProgress c) = c ∧
    run c w (a ++ .suspend :: b) = run c w (a ++ b) ∧
    run c w (a ++ b) =
      (match run c w a with
       | none => none
       | some (c', w', rs) =>
         match run (resume c'.msg (intoProgress c')) w' b with
         | none => none
         | some (c'', w'', rs') => some (c'', w'', rs ++ rs')) := by
  refine ⟨rfl, ?_, ?_⟩
  · rw [run_append, run_append]
    cases run c w a with
    | none => rfl
    | some p =>
      obtain ⟨c1, w1, rs⟩ := p
      simp only [run, step, resume, intoProgress]
      cases run c1 w1 b with
      | none => rfl
      | some q => obtain ⟨c2, w2, rs2⟩ := q; simp
  · rw [run_append]
    rfl

/-- **reported_serial_is_header_serial.** The serial `send_message` chooses (the preset one, else the
    connection's counter, by C13's `sendSerial`) is the one marshalled into the header — bytes 8..12
    in the message's byte order — the one `serial()` reports at every point of every history, and the
    one `write` returns; and when `write` returns it, bytes 8..12 of what the PEER received decode to it. -/
theorem reported_serial_is_header_serial (conn conn' : Serial.Conn) (hm : Header.Msg) (fds : List Nat)
    (preset : Option Nat) (ctx : Ctx)
    (hp : ∀ p, preset = some p → p < 2 ^ 32)
    (h : sendMessage conn hm fds preset = .started ctx conn') :
    Serial.sendSerial conn preset = some (ctx.serial, conn') ∧
    (∀ p, preset = some p → ctx.serial = p) ∧ (preset = none → ctx.serial = conn.counter) ∧
    ctx.st.bytesSent = 0 ∧ ctx.msg.body = hm.body ∧ ctx.msg.fds = fds ∧
    Header.marshalHeader hm ctx.serial = some ctx.msg.hdr ∧
    valOf hm.bo (slice ctx.msg.hdr 8 4) = ctx.serial ∧
    (∀ steps, ∃ c w rs, run ctx Wire.empty steps = some (c, w, rs) ∧ c.serial = ctx.serial) ∧
    (∀ evs s, (write ctx.msg ctx.st Wire.empty evs).1 = .done s →
      s = ctx.serial ∧
      valOf hm.bo (slice (write ctx.msg ctx.st Wire.empty evs).2.2.1.bytes 8 4) = s) := by
  unfold sendMessage at h
  cases hs : Serial.sendSerial conn preset with
  | none => simp [hs] at h
  | some p =>
    obtain ⟨s, c1⟩ := p
    simp only [hs] at h
    cases hh : Header.marshalHeader hm s with
    | none => simp [hh] at h
    | some hdr =>
      simp only [hh, Start.started.injEq] at h
      obtain ⟨rfl, rfl⟩ := h
      have hlt : s < 256 ^ 4 := by
        cases preset with
        | some p =>
          simp only [Serial.sendSerial, Option.some.injEq, Prod.mk.injEq] at hs
          have := hp p rfl
          omega
        | none =>
          simp only [Serial.sendSerial, Serial.allocSerial] at hs
          by_cases hc : conn.counter + 1 ≤ Serial.u32Max
          · rw [if_pos hc] at hs
            simp only [Option.some.injEq, Prod.mk.injEq] at hs
            simp only [Serial.u32Max] at hc
            omega
          · rw [if_neg hc] at hs; simp at hs
      refine ⟨rfl, ?_, ?_, rfl, rfl, rfl, hh, serial_in_header hm s hdr hh hlt, ?_, ?_⟩
      · intro p hp'
        subst hp'
        simp only [Serial.sendSerial, Option.some.injEq, Prod.mk.injEq] at hs
        exact hs.1.symm
      · intro hn
        subst hn
        simp only [Serial.sendSerial, Serial.allocSerial] at hs
        split at hs
        · simp only [Option.some.injEq, Prod.mk.injEq] at hs
          exact hs.1.symm
        · simp at hs
      · intro steps
        obtain ⟨c, w, rs, h1, _, _, h4, _⟩ :=
          run_inv steps ⟨⟨hdr, hm.body, fds⟩, ⟨0, s⟩⟩ Wire.empty (inv_init _ s)
        exact ⟨c, w, rs, h1, h4⟩
      · intro evs s' hd
        obtain ⟨k1, k2, k3, _⟩ := (write_done_only_when_complete ⟨hdr, hm.body, fds⟩ s evs).2 s' hd
        refine ⟨k1, ?_⟩
        show valOf hm.bo (slice (write ⟨hdr, hm.body, fds⟩ ⟨0, s⟩ Wire.empty evs).2.2.1.bytes 8 4) = s'
        rw [k3, k1]
        exact serial_in_frame hm s hdr hm.body hh hlt

/-- **write terminates.** If every `sendmsg` takes at least one byte, `write` ends with `Ok(serial)`
    after at most `|hdr| + |body|` calls of `write_once` (one call for an empty message). -/
theorem write_terminates (m : Msg) (serial : Nat) (evs : List WEv)
    (hall : ∀ e ∈ evs, ∃ k, e = .io (.accept k) ∧ 1 ≤ k) (hlen : max 1 m.total ≤ evs.length) :
    (write m ⟨0, serial⟩ Wire.empty evs).1 = .done serial ∧
    (write m ⟨0, serial⟩ Wire.empty evs).2.2.2 ≤ max 1 (m.hdr.length + m.body.length) := by
  obtain ⟨h1, h2, _⟩ := write_progress m evs ⟨0, serial⟩ Wire.empty (inv_init m serial) hall
    (by simpa using hlen)
  exact ⟨h1, by simpa [Msg.total] using h2⟩

/-- The corner the loop in `write` has, stated instead of hidden: a kernel that answered "0 bytes
    taken" to a non-empty offer every time would keep `write` looping for ever — after any number of
    such answers it is still running in the same state. (Linux stream sockets block or return EAGAIN
    instead; assumption of the trusted base.) -/
theorem write_spins_on_zero_accepts (m : Msg) (serial n : Nat) (h : 0 < m.total) :
    write m ⟨0, serial⟩ Wire.empty (List.replicate n (.io (.accept 0))) =
      (.running, ⟨0, serial⟩, Wire.empty, n) :=
  write_zero_spins m n ⟨0, serial⟩ Wire.empty (inv_init m serial) h

/-- **partial_drop_panics.** `Drop` panics exactly for a partially sent message
    (`0 < bytes_sent < total` on every reachable state); the consuming functions `force_finish`,
    `into_progress`, `force_finish_on_error` never run it, and the drop that `write` performs on
    success (`finish_if_ok`) never panics. -/
theorem partial_drop_panics (m : Msg) (serial : Nat) (steps : List Step) :
    ∃ c w rs, run (Ctx.start m serial) Wire.empty steps = some (c, w, rs) ∧
      (exitPanics c .drop = true ↔ 0 < c.st.bytesSent ∧ c.st.bytesSent < m.total) ∧
      exitPanics c .forceFinish = false ∧ exitPanics c .intoProgress = false ∧
      exitPanics c .forceFinishOnError = false ∧
      (∀ evs, (write m c.st w evs).1 ≠ .panic) := by
  obtain ⟨c, w, rs, h1, hm, hi, _, _⟩ := run_inv steps (Ctx.start m serial) Wire.empty (inv_init m serial)
  simp only [Ctx.start] at hi hm
  refine ⟨c, w, rs, h1, ?_, rfl, rfl, rfl, fun evs => (write_inv m evs c.st w hi).2.2.2.1⟩
  have hle := hi.le
  simp only [exitPanics, Exit.runsDrop, dropPanics, allWritten, hm, Bool.true_and, Bool.and_eq_true,
    bne_iff_ne, ne_eq, Bool.not_eq_true', beq_eq_false_iff_ne]
  omega

/-! ### non-vacuity: a concrete message (16-byte header, 5-byte body, two descriptors) -/

private def exHdr : List UInt8 := [108, 4, 1, 1, 5, 0, 0, 0, 7, 0, 0, 0, 0, 0, 0, 0]
private def exMsg : Msg := ⟨exHdr, [1, 2, 3, 4, 5], [10, 11]⟩

-- a short write that ends inside the header, a suspend/resume, one that ends exactly at the seam,
-- one that the kernel cuts to what is left
example : run (Ctx.start exMsg 7) Wire.empty
      [.call (.accept 3), .suspend, .call (.accept 13), .call .eagain, .call (.accept 100)] =
    some (⟨exMsg, ⟨21, 7⟩⟩, ⟨[[1, 2, 3, 4, 5], exHdr.drop 3, exHdr.take 3], [(0, [10, 11])]⟩,
          [.ok 3, .ok 13, .wouldBlock, .ok 5]) ∧
    Wire.bytes ⟨[[1, 2, 3, 4, 5], exHdr.drop 3, exHdr.take 3], [(0, [10, 11])]⟩ = exHdr ++ [1, 2, 3, 4, 5] := by
  decide +kernel

-- at the seam the header slice is empty and the body slice starts at 0; no descriptors any more
example : offer exMsg ⟨16, 7⟩ =
    some { hdrOff := 16, bodyOff := 0, hdrSlice := [], bodySlice := [1, 2, 3, 4, 5], fds := [] } := by
  decide +kernel

-- inside the header: rest of the header plus the whole body
example : offer exMsg ⟨3, 7⟩ =
    some { hdrOff := 3, bodyOff := 0, hdrSlice := exHdr.drop 3, bodySlice := [1, 2, 3, 4, 5], fds := [] } := by
  decide +kernel

-- EAGAIN first: nothing reaches the peer, the descriptors are offered again and arrive once
example : run (Ctx.start exMsg 7) Wire.empty [.call .eagain, .call .fail] =
    some (Ctx.start exMsg 7, Wire.empty, [.wouldBlock, .error]) := by decide +kernel
example : run (Ctx.start exMsg 7) Wire.empty [.call .eagain, .call (.accept 17), .call (.accept 1)] =
    some (⟨exMsg, ⟨18, 7⟩⟩, ⟨[[2], exHdr ++ [1]], [(0, [10, 11])]⟩, [.wouldBlock, .ok 17, .ok 1]) := by
  decide +kernel

-- a state that `send_message`/`write_once` can never produce does hit the slice panic
example : offer exMsg ⟨22, 7⟩ = none := by decide +kernel

-- `write`: completes after three calls; gives up on EAGAIN with the context partially sent (dropping
-- that context would panic, `force_finish_on_error` does not)
example : write exMsg ⟨0, 7⟩ Wire.empty [.io (.accept 8), .io (.accept 8), .io (.accept 8), .io (.accept 8)] =
    (.done 7, ⟨21, 7⟩, ⟨[[1, 2, 3, 4, 5], exHdr.drop 8, exHdr.take 8], [(0, [10, 11])]⟩, 3) := by
  decide +kernel
example : (write exMsg ⟨0, 7⟩ Wire.empty [.io (.accept 8), .io .eagain, .io (.accept 8)]).1 = .err .wouldBlock ∧
    exitPanics ⟨exMsg, ⟨8, 7⟩⟩ .drop = true ∧ exitPanics ⟨exMsg, ⟨8, 7⟩⟩ .forceFinishOnError = false ∧
    exitPanics ⟨exMsg, ⟨0, 7⟩⟩ .drop = false ∧ exitPanics ⟨exMsg, ⟨21, 7⟩⟩ .drop = false := by
  decide +kernel

-- `send_message` on a real header model: a signal without body, fresh serial 5 from the counter
private def exSignal : Header.Msg :=
  { bo := .le, typ := 4, flags := 0, replySerial := none,
    interface := some [97, 46, 98], destination := none, sender := none, member := some [77],
    path := some [47, 111], errorName := none, bodySig := [], body := [], nfds := 0 }

example : (match sendMessage ⟨5⟩ exSignal [] none with
    | .started ctx c => some (ctx.serial, c.counter, slice ctx.msg.hdr 8 4, ctx.msg.hdr.length)
    | _ => none) = some (5, 6, [5, 0, 0, 0], 64) := by decide +kernel

end Rustbus.Send

#print axioms Rustbus.Send.wire_is_prefix
#print axioms Rustbus.Send.fds_exactly_once
#print axioms Rustbus.Send.failed_call_is_invisible
#print axioms Rustbus.Send.eagain_first_reattaches
#print axioms Rustbus.Send.complete_iff_all
#print axioms Rustbus.Send.write_done_only_when_complete
#print axioms Rustbus.Send.write_after_any_history
#print axioms Rustbus.Send.resume_continues
#print axioms Rustbus.Send.reported_serial_is_header_serial
#print axioms Rustbus.Send.write_terminates
#print axioms Rustbus.Send.write_spins_on_zero_accepts
#print axioms Rustbus.Send.partial_drop_panics
