import RustbusModel.Lemmas.FdConcGone
/-!
C12 — A shared `UnixFd` is taken at most once and closed exactly once, in any interleaving.

Setting (Model/FdConc.lean): `init orig progs` = one `UnixFd` holding the descriptor number `orig`, one clone
per thread, thread `i` runs the program `progs[i]` (any list over take / get / dup / clone / drop) and at its end
drops the handles it still owns. `run c s` executes the schedule `s` (a list of thread ids, one ATOMIC step
of the named thread per entry: a load, a compare_exchange, an `Arc` increment / decrement, a `dup` or
`close` system call, or the invocation of the next operation). All theorems hold for ANY number of threads,
ANY programs and ANY schedule `s`; `orig ≠ -1` because -1 is the cell's marker for "taken".

"The library closes the descriptor" = an action `close (Fd.num orig)` in the trace, i.e. a `close` system
call on the original number; only `Drop for UnixFdInner` of the shared cell issues these
(`Config.closesOf orig` counts them). Descriptors created by `dup` are different objects (`Fd.dupd n`)
with their own lifetime; closing them is not closing the original.

Assumed (not proved): SeqCst atomics = interleaving of atomic steps; `Arc` = atomic counter whose last
decrement runs `Drop`; `dup` succeeds and returns a number that is not open at that moment.
-/
namespace Rustbus.FdConc

private theorem reach_inv {orig : Int} (ho : orig ≠ -1) {progs : List (List Op)} {s : List Nat} {c : Config}
    (h : run (init orig progs) s = some c) : Inv orig c :=
  inv_run orig ho s _ c (inv_init orig progs) h

/-- Over the whole execution at most one `take_raw_fd` returns `Some`, and what it returns is the original
    descriptor. (`allResults` = the results of all finished operations of all threads.) -/
theorem at_most_one_take (orig : Int) (ho : orig ≠ -1) (progs : List (List Op)) (s : List Nat) (c : Config)
    (h : run (init orig progs) s = some c) :
    c.allResults.countP Res.isTakeSome ≤ 1 ∧ ∀ fd, Res.takeSome fd ∈ c.allResults → fd = orig := by
  have inv := reach_inv ho h
  constructor
  · rw [countP_allResults]
    have h1 := inv.takeEq
    have h2 := inv.casEq
    omega
  · intro fd hfd
    simp only [Config.allResults, List.mem_flatMap] at hfd
    obtain ⟨th, hth, hr⟩ := hfd
    exact (inv.wf th hth).2 _ hr

/-- A successful `take_raw_fd` returns the original descriptor (second half of `at_most_one_take`, per thread). -/
theorem take_returns_original (orig : Int) (ho : orig ≠ -1) (progs : List (List Op)) (s : List Nat) (c : Config)
    (h : run (init orig progs) s = some c) (t : Nat) (th : Thread) (ht : c.threads[t]? = some th) (fd : Int)
    (hr : Res.takeSome fd ∈ th.results) : fd = orig :=
  ((reach_inv ho h).wf th (List.mem_of_getElem? ht)).2 _ hr

/-- Real-time order. Let `c1` be any reachable configuration in which some `take_raw_fd` has already executed
    its successful compare_exchange (or has already returned `Some`), and `c2` any configuration reachable from
    `c1`. Then for every thread: the results it reports between `c1` and `c2` are "gone"
    (`None` / `AlreadyTaken`; clone and drop report nothing about the descriptor) — ALL of them if at `c1`
    the thread was between two operations or had only invoked its operation without executing its first
    atomic step (the load); all BUT THE FIRST if at `c1` it was in the middle of an operation (that one
    overlaps the take and may still have seen the descriptor). -/
theorem gone_after_take (orig : Int) (ho : orig ≠ -1) (progs : List (List Op)) (s1 s2 : List Nat)
    (c1 c2 : Config) (h1 : run (init orig progs) s1 = some c1)
    (htaken : (∃ e ∈ c1.trace, e.2.isTook = true) ∨ (∃ r ∈ c1.allResults, r.isTakeSome = true))
    (h2 : run c1 s2 = some c2) (t : Nat) (th1 : Thread) (ht : c1.threads[t]? = some th1) :
    ∃ th2 new, c2.threads[t]? = some th2 ∧ th2.results = th1.results ++ new ∧
      (th1.pc.beforeFirstStep = true → ∀ r ∈ new, r.seesFd = false) ∧
      (∀ r ∈ new.tail, r.seesFd = false) := by
  have inv := reach_inv ho h1
  have hpos : 0 < nTook c1.trace := by
    rcases htaken with ⟨e, he, hp⟩ | ⟨r, hr, hp⟩
    · exact List.countP_pos_iff.mpr ⟨e, he, hp⟩
    · have : 0 < c1.allResults.countP Res.isTakeSome := List.countP_pos_iff.mpr ⟨r, hr, hp⟩
      rw [countP_allResults] at this
      have := inv.takeEq
      omega
  have hg := inner_gone_of_took inv hpos
  obtain ⟨_, th2, new, hth2, hres, hcl, htl⟩ := run_gone s2 c1 c2 h2 hg t th1 ht
  refine ⟨th2, new, hth2, hres, ?_, ?_⟩
  · intro hb
    exact (hcl (clean_of_beforeFirstStep hb)).2
  · rcases htl with rfl | ⟨_, h⟩
    · simp
    · exact h

/-- Once a take has succeeded the cell holds -1 for ever: every later load (of any get / take / dup / Drop)
    reads -1. (The mechanism behind `gone_after_take`, stated on the shared state.) -/
theorem taken_is_permanent (orig : Int) (ho : orig ≠ -1) (progs : List (List Op)) (s1 s2 : List Nat)
    (c1 c2 : Config) (h1 : run (init orig progs) s1 = some c1) (htaken : ∃ e ∈ c1.trace, e.2.isTook = true)
    (h2 : run c1 s2 = some c2) : c1.sh.inner = -1 ∧ c2.sh.inner = -1 := by
  have inv := reach_inv ho h1
  obtain ⟨e, he, hp⟩ := htaken
  have hg := inner_gone_of_took inv (List.countP_pos_iff.mpr ⟨e, he, hp⟩)
  exact ⟨hg, run_inner_gone s2 c1 c2 h2 hg⟩

/-- The `Arc` count is exactly the number of live handles: those the threads own plus those that are being
    consumed by a `take_raw_fd` / drop whose decrement has not happened yet (`held`). This is what
    "a handle is alive" means in the next theorem. -/
theorem strong_counts_live_handles (orig : Int) (ho : orig ≠ -1) (progs : List (List Op)) (s : List Nat)
    (c : Config) (h : run (init orig progs) s = some c) :
    c.sh.strong = sumBy held c.threads :=
  (reach_inv ho h).strongEq

/-- While any handle is alive (the `Arc` count is positive; equivalently some thread owns a handle or is in
    the middle of consuming one) the trace contains no `close` of the original descriptor: the library does
    not close it before the last drop. -/
theorem not_closed_before_last_drop (orig : Int) (ho : orig ≠ -1) (progs : List (List Op)) (s : List Nat)
    (c : Config) (h : run (init orig progs) s = some c)
    (halive : 0 < c.sh.strong ∨ ∃ th ∈ c.threads, 0 < held th) : c.closesOf orig = 0 := by
  have inv := reach_inv ho h
  have hs : 0 < c.sh.strong := by
    rcases halive with hs | ⟨th, hth, hh⟩
    · exact hs
    · have := sumBy_ge held c.threads th hth
      have := inv.strongEq
      omega
  have h1 := (inv.alive hs).2
  have h2 := inv.closeEq
  simp only [Config.closesOf]
  simp only [nClose] at h2
  omega

/-- If a take succeeded (its compare_exchange has been executed, or it has already returned `Some`), the
    trace contains no `close` of the original descriptor — in every reachable configuration, so at no point
    of the execution, before or after: the library never closes a taken descriptor. -/
theorem never_closed_if_taken (orig : Int) (ho : orig ≠ -1) (progs : List (List Op)) (s : List Nat)
    (c : Config) (h : run (init orig progs) s = some c)
    (htaken : (∃ e ∈ c.trace, e.2.isTook = true) ∨ (∃ r ∈ c.allResults, r.isTakeSome = true)) :
    c.closesOf orig = 0 := by
  have inv := reach_inv ho h
  have hpos : 0 < nTook c.trace := by
    rcases htaken with ⟨e, he, hp⟩ | ⟨r, hr, hp⟩
    · exact List.countP_pos_iff.mpr ⟨e, he, hp⟩
    · have : 0 < c.allResults.countP Res.isTakeSome := List.countP_pos_iff.mpr ⟨r, hr, hp⟩
      rw [countP_allResults] at this
      have := inv.takeEq
      omega
  have h1 := inv.casEq
  have h2 := inv.closeEq
  simp only [Config.closesOf]
  simp only [nClose] at h2
  omega

/-- When all threads have finished (every handle has been dropped; at least one thread existed): the trace
    contains exactly one `close` of the original descriptor if no take returned `Some`, and none if one did. -/
theorem closed_once_iff_not_taken (orig : Int) (ho : orig ≠ -1) (progs : List (List Op)) (hp : progs ≠ [])
    (s : List Nat) (c : Config) (h : run (init orig progs) s = some c) (hf : c.finished = true) :
    c.closesOf orig + c.allResults.countP Res.isTakeSome = 1 ∧
    (c.closesOf orig = 1 ↔ ∀ r ∈ c.allResults, r.isTakeSome = false) ∧
    (c.closesOf orig = 0 ↔ ∃ r ∈ c.allResults, r.isTakeSome = true) := by
  have inv := reach_inv ho h
  obtain ⟨m1, m2, m3, m4⟩ := finished_measures hf
  have hs : c.sh.strong = 0 := by rw [inv.strongEq, m1]
  have hne : c.threads ≠ [] := by
    intro hn
    have hl : ∀ (s : List Nat) (c c' : Config), run c s = some c' → c'.threads.length = c.threads.length := by
      intro s
      induction s with
      | nil => intro c c' h; simp only [run, Option.some.injEq] at h; rw [h]
      | cons t s ih =>
        intro c c' h
        simp only [run] at h
        split at h
        · simp at h
        · rename_i cm hcm
          obtain ⟨th, sh', th', acts, hth, hst, rfl⟩ := step_unfold hcm
          rw [ih _ c' h]; simp
    have := hl s _ c h
    rw [hn] at this
    simp only [init, List.length_map, List.length_nil] at this
    exact hp (List.eq_nil_of_length_eq_zero this.symm)
  have hg : c.sh.inner = -1 := by
    rcases inv.dead hs with d | d | d
    · omega
    · exact d
    · exact absurd d hne
  have h1 := inv.casEq
  have h2 := inv.closeEq
  have h3 := inv.takeEq
  have hb : b2n (c.sh.inner = orig) = 0 := by
    simp only [b2n, hg]
    have hne : ¬ ((-1 : Int) = orig) := fun hh => ho hh.symm
    simp [hne]
  have heq : c.closesOf orig + c.allResults.countP Res.isTakeSome = 1 := by
    rw [countP_allResults]
    simp only [Config.closesOf]
    simp only [nClose] at h2
    omega
  refine ⟨heq, ?_, ?_⟩
  · constructor
    · intro hc r hr
      have : c.allResults.countP Res.isTakeSome = 0 := by omega
      have := List.countP_eq_zero.mp this r hr
      simpa using this
    · intro hall
      have : c.allResults.countP Res.isTakeSome = 0 :=
        List.countP_eq_zero.mpr (fun r hr => by simp [hall r hr])
      omega
  · constructor
    · intro hc
      have : 0 < c.allResults.countP Res.isTakeSome := by omega
      exact List.countP_pos_iff.mp this
    · intro hex
      have : 0 < c.allResults.countP Res.isTakeSome := List.countP_pos_iff.mpr hex
      omega

/-- The schedules of the test harness (which can stop a thread only at hook points and between operations, so
    that the `Arc` decrement runs together with the step before it) are particular schedules of the model:
    everything proved above for `run` holds for the executions the correspondence run compares against. -/
theorem coarse_schedules_are_schedules (c c' : Config) (s : List Nat) (h : runCoarse c s = some c') :
    ∃ s', run c s' = some c' :=
  runCoarse_refines s c c' h

/-! ### Non-vacuity: concrete executions -/

/-- sequential: one thread holding three handles: take, then get / dup / a second take all report "gone";
    the last drop does not close -/
example : (run (init 7 [[.clone, .clone, .take, .get, .dup, .take]]) (List.replicate 17 0)).map
      (fun c => (c.allResults, c.closesOf 7, c.finished)) =
    some ([.cloned, .cloned, .takeSome 7, .getNone, .dupTaken, .takeNone, .dropped], 0, true) := by
  decide +kernel

/-- sequential: nobody takes: get and dup see the descriptor, the duplicate is closed on its own, and the
    last (here: only) drop closes the original exactly once -/
example : (run (init 7 [[.get, .dup]]) (List.replicate 12 0)).map
      (fun c => (c.allResults, c.syslog.map (·.2), c.closesOf 7, c.finished)) =
    some ([.getSome 7, .dupOk 0, .dropped], [.dupSys 7 0, .close (.dupd 0), .close (.num 7)], 1, true) := by
  decide +kernel

/-- two threads race for the descriptor: both load 7 before either compare_exchange; thread 0's
    compare_exchange wins, thread 1's fails; thread 1's drop is the last one and does not close -/
example : (run (init 7 [[.take], [.take]]) [0, 1, 0, 1, 0, 1, 0, 1, 1, 1]).map
      (fun c => (c.threads.map (·.results), c.closesOf 7, c.finished)) =
    some ([[.takeSome 7], [.takeNone]], 0, true) := by
  decide +kernel

/-- the same race in the other order: thread 1 wins -/
example : (run (init 7 [[.take], [.take]]) [0, 1, 0, 1, 1, 0, 0, 1, 1, 1]).map
      (fun c => (c.threads.map (·.results), c.closesOf 7, c.finished)) =
    some ([[.takeNone], [.takeSome 7]], 0, true) := by
  decide +kernel

/-- an operation that overlaps the take may still see the descriptor: thread 1's dup loads 7, then thread 0
    takes, then thread 1 calls dup(7) — this is why `gone_after_take` exempts the first result of a thread
    that was in the middle of an operation -/
example : (run (init 7 [[.take], [.dup]]) [1, 1, 0, 0, 0, 0, 1, 1, 1, 1, 1, 1]).map
      (fun c => (c.threads.map (·.results), c.syslog, c.closesOf 7, c.finished)) =
    some ([[.takeSome 7], [.dupOk 0, .dropped]], [(1, .dupSys 7 0), (1, .close (.dupd 0))], 0, true) := by
  decide +kernel

/-- a get invoked after the take returned sees nothing; three threads, nobody takes: closed once at the end -/
example : (run (init 7 [[.take], [.get]]) [0, 0, 0, 0, 1, 1, 1, 1, 1, 1]).map
      (fun c => (c.threads.map (·.results), c.closesOf 7)) =
    some ([[.takeSome 7], [.getNone, .dropped]], 0) := by
  decide +kernel

example : (runCoarse (init 7 [[.get], [.drop], [.dup]]) [1, 0, 2, 2, 0, 2, 2, 0, 2, 2, 2, 2, 2]).map
      (fun c => (c.threads.map (·.results), c.syslog.map (·.2), c.closesOf 7, c.finished)) =
    some ([[.getSome 7, .dropped], [.dropped], [.dupOk 0, .dropped]],
          [.dupSys 7 0, .close (.dupd 0), .close (.num 7)], 1, true) := by
  decide +kernel

end Rustbus.FdConc

#print axioms Rustbus.FdConc.at_most_one_take
#print axioms Rustbus.FdConc.take_returns_original
#print axioms Rustbus.FdConc.gone_after_take
#print axioms Rustbus.FdConc.taken_is_permanent
#print axioms Rustbus.FdConc.strong_counts_live_handles
#print axioms Rustbus.FdConc.not_closed_before_last_drop
#print axioms Rustbus.FdConc.never_closed_if_taken
#print axioms Rustbus.FdConc.closed_once_iff_not_taken
#print axioms Rustbus.FdConc.coarse_schedules_are_schedules
