import RustbusModel.Lemmas.AuthHs
/-!
C17 — Connection setup: address resolution and auth follow the protocol and terminate.

Model: `Model/Auth.lean` (`parseAddr`, `getUidAsHex`, `connect`); vocabulary: `Spec/Auth.lean`.
Inputs that belong to the environment and are universally quantified in every theorem:
`ex` (does the file exist), `uid`, `wok` (does the k-th write succeed) and the `script`: the list of
results of the successive `stream.read` calls (`chunk bytes` / `eof` / `err`). When the script is exhausted
the next read is treated as `eof`. A peer that neither answers nor closes is NOT covered (the real client
then blocks forever, `auth.rs` has no timeout); the property's list of server behaviours does not include it.
-/
namespace Rustbus.Auth

/-! ## A. address resolution -/

/-- Complete characterisation: the parser returns `r` for the string `s` exactly if `s` resolves to `r` in the
    sense of the declarative relation `Resolves` (no ':' → no address; transport other than `unix` → not
    supported; `unix:` + comma separated items: the first item that is not a passed-over `key=value` decides).
    Totality (every string gets a result, no panic) is by construction of `parseAddr`. -/
theorem addr_resolves_iff (ex : List Char → Bool) (s : List Char) (r : AddrResult) :
    parseAddr ex s = r ↔ Resolves ex s r :=
  parseAddr_iff_resolves ex s r

/-- `unix:` + any `key=value` pairs with other keys + `path=p` + anything (in particular further `path=` /
    `abstract=` keys: the FIRST one wins) resolves to exactly `p`, provided `p` exists (and is a name
    `UnixAddr::new` accepts: no NUL, shorter than 108 bytes). -/
theorem addr_unix_ok (ex : List Char → Bool) (pre : List (List Char × List Char)) (p : List Char)
    (post : List (List Char))
    (hpre : ∀ kv ∈ pre, kv.1 ≠ kPath ∧ kv.1 ≠ kAbstract ∧ '=' ∉ kv.1 ∧ ',' ∉ kv.1 ∧ ',' ∉ kv.2)
    (hp : ',' ∉ p) (hpost : ∀ x ∈ post, ',' ∉ x) (hex : ex p = true) (hok : unixAddrNewOk p = true) :
    parseAddr ex (kUnix ++ ':' :: joinWith ',' (pre.map renderPair ++ (kPath ++ '=' :: p) :: post))
      = .path p := by
  rw [addr_resolves_iff]
  refine .decided _ _ _ _ ?_ ?_ (.path p hex hok)
  · intro x hx
    obtain ⟨kv, hkv, rfl⟩ := List.mem_map.mp hx
    obtain ⟨h1, h2, h3, _, _⟩ := hpre kv hkv
    exact ⟨kv.1, kv.2, rfl, h3, h1, h2⟩
  · intro x hx
    simp only [List.mem_append, List.mem_map, List.mem_cons] at hx
    rcases hx with ⟨kv, hkv, rfl⟩ | rfl | hx
    · obtain ⟨_, _, _, h4, h5⟩ := hpre kv hkv
      simp [renderPair, h4, h5]
    · have : ',' ∉ kPath := by decide
      simp [this, hp]
    · exact hpost x hx

/-- the same for `abstract=a` (names shorter than 108 bytes) -/
theorem addr_unix_abstract_ok (ex : List Char → Bool) (pre : List (List Char × List Char))
    (a : List Char) (post : List (List Char))
    (hpre : ∀ kv ∈ pre, kv.1 ≠ kPath ∧ kv.1 ≠ kAbstract ∧ '=' ∉ kv.1 ∧ ',' ∉ kv.1 ∧ ',' ∉ kv.2)
    (ha : ',' ∉ a) (hpost : ∀ x ∈ post, ',' ∉ x) (hok : unixAddrAbstractOk a = true) :
    parseAddr ex (kUnix ++ ':' :: joinWith ',' (pre.map renderPair ++ (kAbstract ++ '=' :: a) :: post))
      = .abstract a := by
  rw [addr_resolves_iff]
  refine .decided _ _ _ _ ?_ ?_ (.abstract a hok)
  · intro x hx
    obtain ⟨kv, hkv, rfl⟩ := List.mem_map.mp hx
    obtain ⟨h1, h2, h3, _, _⟩ := hpre kv hkv
    exact ⟨kv.1, kv.2, rfl, h3, h1, h2⟩
  · intro x hx
    simp only [List.mem_append, List.mem_map, List.mem_cons] at hx
    rcases hx with ⟨kv, hkv, rfl⟩ | rfl | hx
    · obtain ⟨_, _, _, h4, h5⟩ := hpre kv hkv
      simp [renderPair, h4, h5]
    · have : ',' ∉ kAbstract := by decide
      simp [this, ha]
    · exact hpost x hx

/-- The result is the socket path `p` exactly for the strings of that shape: `unix:`, then only passed-over
    `key=value` items, then the item `path=p` with `p` existing, then anything. -/
theorem addr_path_iff (ex : List Char → Bool) (s p : List Char) :
    parseAddr ex s = .path p ↔
      ∃ pre post, s = kUnix ++ ':' :: joinWith ',' (pre ++ (kPath ++ '=' :: p) :: post) ∧
        (∀ x ∈ pre, Skipped x) ∧ (∀ x ∈ pre ++ (kPath ++ '=' :: p) :: post, ',' ∉ x) ∧
        ex p = true ∧ unixAddrNewOk p = true := by
  rw [addr_resolves_iff]
  constructor
  · intro h
    generalize hr : AddrResult.path p = r at h
    cases h with
    | noColon _ _ => cases hr
    | otherSystem _ _ _ _ => cases hr
    | decided pre q post r h1 h2 h3 =>
      subst hr
      cases h3 with
      | path p he ho => exact ⟨pre, post, rfl, h1, h2, he, ho⟩
    | nothing _ _ _ => cases hr
  · rintro ⟨pre, post, rfl, h1, h2, he, ho⟩
    exact .decided pre _ post _ h1 h2 (.path p he ho)

/-- ditto for an abstract socket name -/
theorem addr_abstract_iff (ex : List Char → Bool) (s a : List Char) :
    parseAddr ex s = .abstract a ↔
      ∃ pre post, s = kUnix ++ ':' :: joinWith ',' (pre ++ (kAbstract ++ '=' :: a) :: post) ∧
        (∀ x ∈ pre, Skipped x) ∧ (∀ x ∈ pre ++ (kAbstract ++ '=' :: a) :: post, ',' ∉ x) ∧
        unixAddrAbstractOk a = true := by
  rw [addr_resolves_iff]
  constructor
  · intro h
    generalize hr : AddrResult.abstract a = r at h
    cases h with
    | noColon _ _ => cases hr
    | otherSystem _ _ _ _ => cases hr
    | decided pre q post r h1 h2 h3 =>
      subst hr
      cases h3 with
      | abstract a ho => exact ⟨pre, post, rfl, h1, h2, ho⟩
    | nothing _ _ _ => cases hr
  · rintro ⟨pre, post, rfl, h1, h2, ho⟩
    exact .decided pre _ post _ h1 h2 (.abstract a ho)

/-- Every other string yields an error: no ':' → NoAddressFound (and only then); a transport other than
    `unix` → AddressTypeNotSupported; a successful result implies the string starts with `unix:`. -/
theorem addr_errors (ex : List Char → Bool) (s : List Char) :
    (parseAddr ex s = .errNoAddress ↔ ':' ∉ s) ∧
    (∀ sys rest, s = sys ++ ':' :: rest → ':' ∉ sys → sys ≠ kUnix → parseAddr ex s = .errNotSupported) ∧
    (∀ r, parseAddr ex s = r → (∃ p, r = .path p) ∨ (∃ a, r = .abstract a) →
      ∃ rest, s = kUnix ++ ':' :: rest) := by
  refine ⟨?_, ?_, ?_⟩
  · rw [addr_resolves_iff]
    constructor
    · intro h
      generalize hr : AddrResult.errNoAddress = r at h
      cases h with
      | noColon _ h => exact h
      | otherSystem _ _ _ _ => cases hr
      | decided pre q post r h1 h2 h3 => subst hr; cases h3
      | nothing _ _ _ => cases hr
    · exact .noColon s
  · rintro sys rest rfl h1 h2
    exact (addr_resolves_iff ex _ _).mpr (.otherSystem sys rest h1 h2)
  · intro r h hr
    rw [addr_resolves_iff] at h
    cases h with
    | noColon _ _ => rcases hr with ⟨_, h⟩ | ⟨_, h⟩ <;> cases h
    | otherSystem _ _ _ _ => rcases hr with ⟨_, h⟩ | ⟨_, h⟩ <;> cases h
    | decided pre q post r h1 h2 h3 => exact ⟨_, rfl⟩
    | nothing _ _ _ => exact ⟨_, rfl⟩

/-- `get_session_bus_path`: an unset (or non-unicode) variable is NoAddressFound, otherwise the parser decides -/
theorem session_bus_path (ex : List Char → Bool) :
    sessionBusPath ex none = .errNoAddress ∧ ∀ a, sessionBusPath ex (some a) = parseAddr ex a :=
  ⟨rfl, fun _ => rfl⟩

/-! ## B. the uid -/

/-- For EVERY uid `get_uid_as_hex` does not panic and returns, for each decimal digit of the uid (most
    significant first, "0" for 0), the character '3' followed by that digit. -/
theorem uid_hex (uid : Nat) :
    getUidAsHex uid = some ((Nat.toDigits 10 uid).flatMap (fun c => ['3', c])) :=
  getUidAsHex_eq uid

/-- … which is the lowercase hex encoding of the ASCII decimal string of the uid (`Nat.repr`), and decoding
    the hex gives that decimal string back. -/
theorem uid_hex_is_hex_of_decimal (uid : Nat) :
    getUidAsHex uid = some (hexEncode (decimalBytes uid)) ∧
    hexDecode (uidHex uid) = some (decimalBytes uid) ∧
    decimalBytes uid = asciiBytes (Nat.repr uid).toList := by
  refine ⟨?_, ?_, ?_⟩
  · rw [uid_hex, decimalBytes, hexEncode_digits _ (toDigits_isDigit uid)]
  · exact hexDecode_digits _ (toDigits_isDigit uid)
  · rw [decimalBytes, Nat.toList_repr]

/-! ## C. the handshake -/

private theorem authLine_head (hex : List Char) : (authLine hex).head? = some 65 := by
  simp [authLine, authPrefix, asciiBytes]

private theorem neg_ne_auth (hex : List Char) : negLine ≠ authLine hex := by
  intro h
  have := congrArg List.head? h
  rw [authLine_head] at this
  revert this; decide

private theorem begin_ne_auth (hex : List Char) : beginLine ≠ authLine hex := by
  intro h
  have := congrArg List.head? h
  rw [authLine_head] at this
  revert this; decide

private theorem begin_ne_neg : beginLine ≠ negLine := by decide
private theorem begin_ne_nul : beginLine ≠ msgNul := by decide
private theorem neg_ne_nul : negLine ≠ msgNul := by decide

/-- what a successful first line read gives -/
private theorem stage1 (script : List Ev) (uid : Nat) (s1 : St) (l1 : List UInt8)
    (h : readMessage (stAuth script uid) = (s1, .ok l1)) :
    ∃ cs extra, LineRead (stAuth script uid) s1 cs l1 extra ∧ Utf8.valid l1 = true ∧
      s1.written = [msgNul, authLine (uidHex uid)] ∧ s1.replies = [⟨l1, extra⟩] ∧
      s1.reads = cs.length ∧ script = cs.map Ev.chunk ++ s1.script := by
  obtain ⟨cs, extra, hl, hv⟩ := readMessage_ok _ _ _ h
  exact ⟨cs, extra, hl, hv, by simpa [stAuth] using hl.written, by simpa [stAuth] using hl.replies,
    by simpa [stAuth] using hl.reads, by simpa [stAuth] using hl.script⟩

private theorem stage2 (s1 s2 : St) (l2 : List UInt8) (h : readMessage (stNeg s1) = (s2, .ok l2)) :
    ∃ cs extra, LineRead (stNeg s1) s2 cs l2 extra ∧ Utf8.valid l2 = true ∧
      s2.written = s1.written ++ [negLine] ∧ s2.replies = s1.replies ++ [⟨l2, extra⟩] ∧
      s2.reads = s1.reads + cs.length ∧ s1.script = cs.map Ev.chunk ++ s2.script := by
  obtain ⟨cs, extra, hl, hv⟩ := readMessage_ok _ _ _ h
  exact ⟨cs, extra, hl, hv, by simpa [stNeg] using hl.written, by simpa [stNeg] using hl.replies,
    by simpa [stNeg] using hl.reads, by simpa [stNeg] using hl.script⟩

/-- what a failed line read leaves: nothing written, no reply accepted -/
private theorem failed_read (a a' : St) (e : Fail) (h : readMessage a = (a', .error e)) :
    a'.written = a.written ∧ e ≠ .panic ∧
    ∃ taken, a.script = taken ++ a'.script ∧ taken.length ≤ a'.reads - a.reads ∧
      a'.reads - a.reads ≤ taken.length + 1 ∧ a.reads ≤ a'.reads := by
  rcases readMessage_err _ _ _ h with ⟨rfl, cs, l, extra, hl, _⟩ | ⟨cs, hs⟩
  · refine ⟨hl.written, by decide, cs.map Ev.chunk, hl.script, ?_, ?_, ?_⟩ <;>
      simp [hl.reads]
  · obtain ⟨stp, hst, h1, h2⟩ := hs.stop
    refine ⟨hs.written, ?_, cs.map Ev.chunk ++ stp.take 1, ?_, ?_, ?_, ?_⟩
    · cases hst <;> decide
    · rw [h1, h2, List.append_assoc]
      cases hst <;> simp
    · simp only [hs.reads, List.length_append, List.length_map, List.length_take]; omega
    · simp only [hs.reads, List.length_append, List.length_map, List.length_take]
      cases hst <;> simp <;> omega
    · simp [hs.reads]; omega

/-- `auth_trace`. For every script, uid, write behaviour and configuration:
    * what the client wrote is a prefix of  NUL, "AUTH EXTERNAL <hex uid>\r\n", ["NEGOTIATE_UNIX_FD\r\n"],
      "BEGIN\r\n"  (in this order, nothing else, every line CRLF-terminated by construction of the messages);
    * NEGOTIATE_UNIX_FD was written only if the first reply line was read completely, is valid UTF-8 and
      starts with "OK";
    * BEGIN was written only if the whole handshake succeeded. -/
theorem auth_trace (wok : Nat → Bool) (uid : Nat) (fd : Bool) (script : List Ev) :
    let o := connect wok uid fd script
    o.1.written <+: expectedMsgs uid fd ∧
    (negLine ∈ o.1.written → ∃ r, o.1.replies.head? = some r ∧ startsWith okBytes r.line = true ∧
      Utf8.valid r.line = true) ∧
    (beginLine ∈ o.1.written → o.2 = .ok) := by
  dsimp only
  have hrun := connect_run wok uid fd script
  generalize connect wok uid fd script = o' at hrun ⊢
  obtain ⟨st, r⟩ := o'
  simp only at hrun ⊢
  show st.written <+: _ ∧ (negLine ∈ st.written → _) ∧ (beginLine ∈ st.written → r = .ok)
  cases hrun with
  | w0 h0 => simp [expectedMsgs]
  | w1 h0 h1 => simp [expectedMsgs, neg_ne_nul, begin_ne_nul]
  | r1fail s1 e h0 h1 hr =>
    obtain ⟨hw, _, _⟩ := failed_read _ _ _ hr
    simp [hw, stAuth, expectedMsgs, neg_ne_nul, begin_ne_nul, neg_ne_auth, begin_ne_auth]
  | rejected1 s1 l1 h0 h1 hr hok =>
    obtain ⟨cs, extra, _, _, hw, _, _, _⟩ := stage1 _ _ _ _ hr
    simp [hw, expectedMsgs, neg_ne_nul, begin_ne_nul, neg_ne_auth, begin_ne_auth]
  | w2 s1 l1 h0 h1 hr hok h2 =>
    obtain ⟨cs, extra, _, _, hw, _, _, _⟩ := stage1 _ _ _ _ hr
    simp [hw, expectedMsgs, neg_ne_nul, begin_ne_nul, neg_ne_auth, begin_ne_auth]
  | okNoFd s1 l1 h0 h1 hr hok hfd h2 =>
    obtain ⟨cs, extra, _, _, hw, _, _, _⟩ := stage1 _ _ _ _ hr
    subst hfd
    simp [hw, expectedMsgs, neg_ne_nul, neg_ne_auth, Ne.symm begin_ne_neg]
  | r2fail s1 l1 s2 e h0 h1 hr hok hfd h2 hr2 =>
    obtain ⟨cs, extra, _, hv, hw, hrep, _, _⟩ := stage1 _ _ _ _ hr
    obtain ⟨hw2, _, _⟩ := failed_read _ _ _ hr2
    have hrep2 : (st.replies).head? = some (Reply.mk l1 extra) := by
      rcases readMessage_err _ _ _ hr2 with ⟨_, cs2, l2, e2, hl2, _⟩ | ⟨cs2, hs2⟩
      · simp [hl2.replies, stNeg, hrep]
      · simp [hs2.replies, stNeg, hrep]
    subst hfd
    refine ⟨by simp [hw2, stNeg, hw, expectedMsgs], fun _ => ⟨_, hrep2, hok, hv⟩, ?_⟩
    simp [hw2, stNeg, hw, begin_ne_nul, begin_ne_auth, begin_ne_neg]
  | rejected2 s1 l1 s2 l2 h0 h1 hr hok hfd h2 hr2 hag =>
    obtain ⟨cs, extra, _, hv, hw, hrep, _, _⟩ := stage1 _ _ _ _ hr
    obtain ⟨cs2, extra2, _, _, hw2, hrep2, _, _⟩ := stage2 _ _ _ hr2
    subst hfd
    refine ⟨by simp [hw2, hw, expectedMsgs], fun _ => ⟨⟨l1, extra⟩, by simp [hrep2, hrep], hok, hv⟩, ?_⟩
    simp [hw2, hw, begin_ne_nul, begin_ne_auth, begin_ne_neg]
  | w3 s1 l1 s2 l2 h0 h1 hr hok hfd h2 hr2 hag h3 =>
    obtain ⟨cs, extra, _, hv, hw, hrep, _, _⟩ := stage1 _ _ _ _ hr
    obtain ⟨cs2, extra2, _, _, hw2, hrep2, _, _⟩ := stage2 _ _ _ hr2
    subst hfd
    refine ⟨by simp [hw2, hw, expectedMsgs], fun _ => ⟨⟨l1, extra⟩, by simp [hrep2, hrep], hok, hv⟩, ?_⟩
    simp [hw2, hw, begin_ne_nul, begin_ne_auth, begin_ne_neg]
  | okFd s1 l1 s2 l2 h0 h1 hr hok hfd h2 hr2 hag h3 =>
    obtain ⟨cs, extra, _, hv, hw, hrep, _, _⟩ := stage1 _ _ _ _ hr
    obtain ⟨cs2, extra2, _, _, hw2, hrep2, _, _⟩ := stage2 _ _ _ hr2
    subst hfd
    exact ⟨by simp [hw2, hw, expectedMsgs], fun _ => ⟨⟨l1, extra⟩, by simp [hrep2, hrep], hok, hv⟩,
      fun _ => rfl⟩

/-- `success_only_on_ok`. A success is reported only if the first reply line is valid UTF-8 and starts with
    "OK" and — with fd negotiation — the second one is valid UTF-8 and starts with "AGREE_UNIX_FD"; exactly
    these lines were read; the whole conversation was written and BEGIN was written last. -/
theorem success_only_on_ok (wok : Nat → Bool) (uid : Nat) (fd : Bool) (script : List Ev) :
    let o := connect wok uid fd script
    o.2 = .ok →
      o.1.written = expectedMsgs uid fd ∧ o.1.written.getLast? = some beginLine ∧
      ∃ r1, startsWith okBytes r1.line = true ∧ Utf8.valid r1.line = true ∧
        (fd = false → o.1.replies = [r1]) ∧
        (fd = true → ∃ r2, o.1.replies = [r1, r2] ∧ startsWith agreeBytes r2.line = true ∧
          Utf8.valid r2.line = true) := by
  dsimp only
  have hrun := connect_run wok uid fd script
  generalize connect wok uid fd script = o' at hrun ⊢
  obtain ⟨st, r⟩ := o'
  simp only at hrun ⊢
  show r = .ok → _
  intro hres
  cases hrun with
  | w0 h0 => cases hres
  | w1 h0 h1 => cases hres
  | r1fail s1 e h0 h1 hr => cases hres
  | rejected1 s1 l1 h0 h1 hr hok => cases hres
  | w2 s1 l1 h0 h1 hr hok h2 => cases hres
  | okNoFd s1 l1 h0 h1 hr hok hfd h2 =>
    obtain ⟨cs, extra, _, hv, hw, hrep, _, _⟩ := stage1 _ _ _ _ hr
    subst hfd
    exact ⟨by simp [hw, expectedMsgs], by simp [hw], ⟨l1, extra⟩, hok, hv, fun _ => hrep,
      (fun h => by cases h)⟩
  | r2fail s1 l1 s2 e h0 h1 hr hok hfd h2 hr2 => cases hres
  | rejected2 s1 l1 s2 l2 h0 h1 hr hok hfd h2 hr2 hag => cases hres
  | w3 s1 l1 s2 l2 h0 h1 hr hok hfd h2 hr2 hag h3 => cases hres
  | okFd s1 l1 s2 l2 h0 h1 hr hok hfd h2 hr2 hag h3 =>
    obtain ⟨cs, extra, _, hv, hw, hrep, _, _⟩ := stage1 _ _ _ _ hr
    obtain ⟨cs2, extra2, _, hv2, hw2, hrep2, _, _⟩ := stage2 _ _ _ hr2
    subst hfd
    exact ⟨by simp [hw2, hw, expectedMsgs], by simp [hw2, hw], ⟨l1, extra⟩, hok, hv,
      (fun h => by cases h), fun _ => ⟨⟨l2, extra2⟩, by simp [hrep2, hrep], hag, hv2⟩⟩

/-- `no_begin_after_reject`. Whenever the result is not success — a reply that does not start with the
    expected keyword, a non-UTF-8 line, eof or a read error at any point, a failed write — BEGIN is not among
    the written messages. A rejected AUTH stops right after the AUTH line, a rejected NEGOTIATE_UNIX_FD right
    after that line; nothing more is sent. -/
theorem no_begin_after_reject (wok : Nat → Bool) (uid : Nat) (fd : Bool) (script : List Ev) :
    let o := connect wok uid fd script
    (o.2 ≠ .ok → beginLine ∉ o.1.written) ∧
    (o.2 = .authFailed → o.1.written = [msgNul, authLine (uidHex uid)] ∧
      ∃ r, o.1.replies = [r] ∧ startsWith okBytes r.line = false) ∧
    (o.2 = .fdFailed → fd = true ∧ o.1.written = [msgNul, authLine (uidHex uid), negLine] ∧
      ∃ r1 r2, o.1.replies = [r1, r2] ∧ startsWith agreeBytes r2.line = false) := by
  dsimp only
  refine ⟨fun hne hmem => hne ((auth_trace wok uid fd script).2.2 hmem), ?_, ?_⟩
  · have hrun := connect_run wok uid fd script
    generalize connect wok uid fd script = o' at hrun ⊢
    obtain ⟨st, r⟩ := o'
    simp only at hrun ⊢
    intro hres
    cases hrun with
    | w0 h0 => cases hres
    | w1 h0 h1 => cases hres
    | r1fail s1 e h0 h1 hr => cases hres
    | rejected1 s1 l1 h0 h1 hr hok =>
      obtain ⟨cs, extra, _, _, hw, hrep, _, _⟩ := stage1 _ _ _ _ hr
      exact ⟨hw, _, hrep, hok⟩
    | w2 s1 l1 h0 h1 hr hok h2 => cases hres
    | okNoFd s1 l1 h0 h1 hr hok hfd h2 => cases hres
    | r2fail s1 l1 s2 e h0 h1 hr hok hfd h2 hr2 => cases hres
    | rejected2 s1 l1 s2 l2 h0 h1 hr hok hfd h2 hr2 hag => cases hres
    | w3 s1 l1 s2 l2 h0 h1 hr hok hfd h2 hr2 hag h3 => cases hres
    | okFd s1 l1 s2 l2 h0 h1 hr hok hfd h2 hr2 hag h3 => cases hres
  · have hrun := connect_run wok uid fd script
    generalize connect wok uid fd script = o' at hrun ⊢
    obtain ⟨st, r⟩ := o'
    simp only at hrun ⊢
    intro hres
    cases hrun with
    | w0 h0 => cases hres
    | w1 h0 h1 => cases hres
    | r1fail s1 e h0 h1 hr => cases hres
    | rejected1 s1 l1 h0 h1 hr hok => cases hres
    | w2 s1 l1 h0 h1 hr hok h2 => cases hres
    | okNoFd s1 l1 h0 h1 hr hok hfd h2 => cases hres
    | r2fail s1 l1 s2 e h0 h1 hr hok hfd h2 hr2 => cases hres
    | rejected2 s1 l1 s2 l2 h0 h1 hr hok hfd h2 hr2 hag =>
      obtain ⟨cs, extra, _, _, hw, hrep, _, _⟩ := stage1 _ _ _ _ hr
      obtain ⟨cs2, extra2, _, _, hw2, hrep2, _, _⟩ := stage2 _ _ _ hr2
      exact ⟨hfd, by simp [hw2, hw], ⟨l1, extra⟩, ⟨l2, extra2⟩, by simp [hrep2, hrep], hag⟩
    | w3 s1 l1 s2 l2 h0 h1 hr hok hfd h2 hr2 hag h3 => cases hres
    | okFd s1 l1 s2 l2 h0 h1 hr hok hfd h2 hr2 hag h3 => cases hres

/-- `terminates`. `connect` is a total function: every finite script gives a result, and the result is never
    the panic marker (`find_line_ending(..).unwrap()` and `unreachable!()` are never reached). The client
    performs at most `script.length + 1` reads: every read consumes one script event, except that a read on
    the exhausted script counts as a read returning eof, and that ends the handshake. The events not consumed
    are left in place (a suffix of the script). -/
theorem terminates (wok : Nat → Bool) (uid : Nat) (fd : Bool) (script : List Ev) :
    let o := connect wok uid fd script
    o.2 ≠ .fail .panic ∧ o.1.reads ≤ script.length + 1 ∧
    ∃ taken, script = taken ++ o.1.script ∧ taken.length ≤ o.1.reads ∧ o.1.reads ≤ taken.length + 1 ∧
      (o.2 = .ok → o.1.reads = taken.length) := by
  dsimp only
  suffices h : (connect wok uid fd script).2 ≠ .fail .panic ∧
      ∃ taken, script = taken ++ (connect wok uid fd script).1.script ∧
        taken.length ≤ (connect wok uid fd script).1.reads ∧
        (connect wok uid fd script).1.reads ≤ taken.length + 1 ∧
        ((connect wok uid fd script).2 = .ok → (connect wok uid fd script).1.reads = taken.length) by
    obtain ⟨h1, taken, h2, h3, h4, h5⟩ := h
    refine ⟨h1, ?_, taken, h2, h3, h4, h5⟩
    have := congrArg List.length h2
    simp only [List.length_append] at this
    omega
  have hrun := connect_run wok uid fd script
  generalize connect wok uid fd script = o' at hrun ⊢
  obtain ⟨st, r⟩ := o'
  simp only at hrun ⊢
  show r ≠ _ ∧ ∃ taken, script = taken ++ st.script ∧ taken.length ≤ st.reads ∧ st.reads ≤ taken.length + 1 ∧
    (r = .ok → st.reads = taken.length)
  cases hrun with
  | w0 h0 => exact ⟨by decide, [], by simp⟩
  | w1 h0 h1 => exact ⟨by decide, [], by simp⟩
  | r1fail s1 e h0 h1 hr =>
    obtain ⟨_, hp, taken, h2, h3, h4, h5⟩ := failed_read _ _ _ hr
    simp only [stAuth, Nat.sub_zero] at h2 h3 h4
    exact ⟨by intro h; cases h; exact hp rfl, taken, h2, h3, h4, fun h => by cases h⟩
  | rejected1 s1 l1 h0 h1 hr hok =>
    obtain ⟨cs, extra, _, _, _, _, hreads, hscript⟩ := stage1 _ _ _ _ hr
    exact ⟨by decide, cs.map Ev.chunk, hscript, by simp [hreads], by simp [hreads], fun h => by cases h⟩
  | w2 s1 l1 h0 h1 hr hok h2 =>
    obtain ⟨cs, extra, _, _, _, _, hreads, hscript⟩ := stage1 _ _ _ _ hr
    exact ⟨by decide, cs.map Ev.chunk, hscript, by simp [hreads], by simp [hreads], fun h => by cases h⟩
  | okNoFd s1 l1 h0 h1 hr hok hfd h2 =>
    obtain ⟨cs, extra, _, _, _, _, hreads, hscript⟩ := stage1 _ _ _ _ hr
    exact ⟨by decide, cs.map Ev.chunk, hscript, by simp [hreads], by simp [hreads], fun _ => by simp [hreads]⟩
  | r2fail s1 l1 s2 e h0 h1 hr hok hfd h2 hr2 =>
    obtain ⟨cs, extra, _, _, _, _, hreads, hscript⟩ := stage1 _ _ _ _ hr
    obtain ⟨_, hp, taken, g2, g3, g4, g5⟩ := failed_read _ _ _ hr2
    simp only [stNeg] at g2 g3 g4 g5
    refine ⟨by intro h; cases h; exact hp rfl, cs.map Ev.chunk ++ taken, ?_, ?_, ?_, fun h => by cases h⟩
    · rw [hscript, g2, List.append_assoc]
    · simp only [List.length_append, List.length_map]; omega
    · simp only [List.length_append, List.length_map]; omega
  | rejected2 s1 l1 s2 l2 h0 h1 hr hok hfd h2 hr2 hag =>
    obtain ⟨cs, extra, _, _, _, _, hreads, hscript⟩ := stage1 _ _ _ _ hr
    obtain ⟨cs2, extra2, _, _, _, _, hreads2, hscript2⟩ := stage2 _ _ _ hr2
    refine ⟨by decide, (cs ++ cs2).map Ev.chunk, ?_, ?_, ?_, fun h => by cases h⟩
    · rw [hscript, hscript2]; simp
    · simp [hreads2, hreads]
    · simp [hreads2, hreads]
  | w3 s1 l1 s2 l2 h0 h1 hr hok hfd h2 hr2 hag h3 =>
    obtain ⟨cs, extra, _, _, _, _, hreads, hscript⟩ := stage1 _ _ _ _ hr
    obtain ⟨cs2, extra2, _, _, _, _, hreads2, hscript2⟩ := stage2 _ _ _ hr2
    refine ⟨by decide, (cs ++ cs2).map Ev.chunk, ?_, ?_, ?_, fun h => by cases h⟩
    · rw [hscript, hscript2]; simp
    · simp [hreads2, hreads]
    · simp [hreads2, hreads]
  | okFd s1 l1 s2 l2 h0 h1 hr hok hfd h2 hr2 hag h3 =>
    obtain ⟨cs, extra, _, _, _, _, hreads, hscript⟩ := stage1 _ _ _ _ hr
    obtain ⟨cs2, extra2, _, _, _, _, hreads2, hscript2⟩ := stage2 _ _ _ hr2
    refine ⟨by decide, (cs ++ cs2).map Ev.chunk, ?_, ?_, ?_, fun _ => ?_⟩
    · rw [hscript, hscript2]; simp
    · simp [hreads2, hreads]
    · simp [hreads2, hreads]
    · simp [hreads2, hreads]

/-- `reads_nothing_after_last_reply`. After a successful handshake the client has performed exactly the reads
    `cs1 ++ cs2` (`cs2 = []` without fd negotiation), all non-empty chunks from the front of the script; the
    rest of the script — everything the server sends afterwards, i.e. the message stream — is untouched.
    The reads for one reply hold the line, its CRLF and possibly `extra` bytes that arrived in the same read
    as the end of the CRLF; no read is made once a complete line is in the buffer (`lazy`). The `extra` bytes
    are consumed and DROPPED: the promise "no message bytes are consumed" holds exactly for servers that send
    nothing beyond the line before BEGIN (`extra = []`, see `messages_untouched`). -/
theorem reads_nothing_after_last_reply (wok : Nat → Bool) (uid : Nat) (fd : Bool) (script : List Ev) :
    let o := connect wok uid fd script
    o.2 = .ok →
      ∃ cs1 cs2 r1, script = (cs1 ++ cs2).map Ev.chunk ++ o.1.script ∧
        o.1.reads = cs1.length + cs2.length ∧
        o.1.consumed = cs1.flatten.length + cs2.flatten.length ∧
        cs1.flatten = r1.line ++ crlf ++ r1.extra ∧
        (∀ cs', cs' <+: cs1 → cs' ≠ cs1 → hasLineEnding cs'.flatten = false) ∧
        (fd = false → cs2 = [] ∧ o.1.replies = [r1]) ∧
        (fd = true → ∃ r2, o.1.replies = [r1, r2] ∧ cs2.flatten = r2.line ++ crlf ++ r2.extra ∧
          (∀ cs', cs' <+: cs2 → cs' ≠ cs2 → hasLineEnding cs'.flatten = false)) := by
  dsimp only
  have hrun := connect_run wok uid fd script
  generalize connect wok uid fd script = o' at hrun ⊢
  obtain ⟨st, r⟩ := o'
  simp only at hrun ⊢
  show r = .ok → _
  intro hres
  cases hrun with
  | w0 h0 => cases hres
  | w1 h0 h1 => cases hres
  | r1fail s1 e h0 h1 hr => cases hres
  | rejected1 s1 l1 h0 h1 hr hok => cases hres
  | w2 s1 l1 h0 h1 hr hok h2 => cases hres
  | okNoFd s1 l1 h0 h1 hr hok hfd h2 =>
    obtain ⟨cs, extra, hl, _, _, hrep, hreads, hscript⟩ := stage1 _ _ _ _ hr
    refine ⟨cs, [], ⟨l1, extra⟩, by simpa using hscript, by simp [hreads], ?_, hl.bytes, hl.lazy,
      fun _ => ⟨rfl, hrep⟩, (fun h => by rw [hfd] at h; cases h)⟩
    simpa [stAuth] using hl.consumed
  | r2fail s1 l1 s2 e h0 h1 hr hok hfd h2 hr2 => cases hres
  | rejected2 s1 l1 s2 l2 h0 h1 hr hok hfd h2 hr2 hag => cases hres
  | w3 s1 l1 s2 l2 h0 h1 hr hok hfd h2 hr2 hag h3 => cases hres
  | okFd s1 l1 s2 l2 h0 h1 hr hok hfd h2 hr2 hag h3 =>
    obtain ⟨cs, extra, hl, _, _, hrep, hreads, hscript⟩ := stage1 _ _ _ _ hr
    obtain ⟨cs2, extra2, hl2, _, _, hrep2, hreads2, hscript2⟩ := stage2 _ _ _ hr2
    refine ⟨cs, cs2, ⟨l1, extra⟩, ?_, by simp [hreads2, hreads], ?_, hl.bytes, hl.lazy,
      (fun h => by rw [hfd] at h; cases h),
      fun _ => ⟨⟨l2, extra2⟩, by simp [hrep2, hrep], hl2.bytes, hl2.lazy⟩⟩
    · rw [hscript, hscript2]; simp
    · have c1 := hl.consumed
      have c2 := hl2.consumed
      simp only [stAuth, stNeg] at c1 c2
      simp only [c2, c1]; omega

/-- `chunking_irrelevant`. If two scripts carry the same line-structured server behaviour for the (at most
    two) reply lines the client reads — each reply a CRLF-free line plus CRLF, split into non-empty reads in
    ANY way but such that the CRLF ends a read, or the stream stopping (close / error) after the same
    CRLF-free partial line — then the result, the written conversation and the accepted lines are the same.
    The hypothesis matters: bytes of a following reply that arrive in the same read as a CRLF are dropped
    (see the examples below). -/
theorem chunking_irrelevant (wok : Nat → Bool) (uid : Nat) (fd : Bool) (s t : List Ev)
    (h : SameStream 2 s t) :
    (connect wok uid fd s).2 = (connect wok uid fd t).2 ∧
    (connect wok uid fd s).1.written = (connect wok uid fd t).1.written ∧
    (connect wok uid fd s).1.replies = (connect wok uid fd t).1.replies := by
  have := connectFrom_sim wok uid fd { script := s } { script := t } ⟨rfl, rfl, rfl, h⟩
  exact ⟨this.1, this.2.written, this.2.replies⟩

/-- `messages_untouched`. A server that answers each command with one line and sends nothing beyond it until
    it has seen BEGIN: whatever follows in the script (`tail`, the message stream) is left completely
    unread, for every way the two reply lines are split into reads. -/
theorem messages_untouched (uid : Nat) (l1 l2 : List UInt8) (a b tail : List Ev)
    (hl1 : hasLineEnding l1 = false) (hl2 : hasLineEnding l2 = false)
    (ha : Chunking (l1 ++ crlf) a) (hb : Chunking (l2 ++ crlf) b)
    (hv1 : Utf8.valid l1 = true) (hv2 : Utf8.valid l2 = true)
    (hok : startsWith okBytes l1 = true) (hag : startsWith agreeBytes l2 = true) :
    (connect (fun _ => true) uid true (a ++ b ++ tail)).2 = .ok ∧
    (connect (fun _ => true) uid true (a ++ b ++ tail)).1.script = tail ∧
    (connect (fun _ => true) uid false (a ++ tail)).2 = .ok ∧
    (connect (fun _ => true) uid false (a ++ tail)).1.script = tail := by
  obtain ⟨csa, rfl, hfa, hna⟩ := ha
  obtain ⟨csb, rfl, hfb, hnb⟩ := hb
  have r1 := fun rest => readMessage_line (stAuth (csa.map Ev.chunk ++ rest) uid) csa rest l1 rfl hfa hna hl1
  simp only [hv1, if_true] at r1
  have r2 := fun (a : St) (hs : a.script = csb.map Ev.chunk ++ tail) =>
    readMessage_line a csb tail l2 hs hfb hnb hl2
  simp only [hv2, if_true] at r2
  have hfd : (connect (fun _ => true) uid true (csa.map Ev.chunk ++ csb.map Ev.chunk ++ tail)).2 = .ok ∧
      (connect (fun _ => true) uid true (csa.map Ev.chunk ++ csb.map Ev.chunk ++ tail)).1.script = tail := by
    have hrun := connect_run (fun _ => true) uid true (csa.map Ev.chunk ++ csb.map Ev.chunk ++ tail)
    generalize connect (fun _ => true) uid true _ = o' at hrun ⊢
    obtain ⟨st, r⟩ := o'
    simp only at hrun ⊢
    rw [List.append_assoc] at hrun
    cases hrun with
    | w0 h0 => cases h0
    | w1 h0 h1 => cases h1
    | r1fail s1 e h0 h1 hr => rw [r1] at hr; cases hr
    | rejected1 s1 l1' h0 h1 hr hok' => rw [r1] at hr; cases hr; rw [hok] at hok'; cases hok'
    | w2 s1 l1' h0 h1 hr hok' h2 => cases h2
    | okNoFd s1 l1' h0 h1 hr hok' hfd h2 => cases hfd
    | r2fail s1 l1' s2 e h0 h1 hr hok' hfd h2 hr2 =>
      rw [r1] at hr; cases hr
      rw [r2 _ rfl] at hr2; cases hr2
    | rejected2 s1 l1' s2 l2' h0 h1 hr hok' hfd h2 hr2 hag' =>
      rw [r1] at hr; cases hr
      rw [r2 _ rfl] at hr2; cases hr2
      rw [hag] at hag'; cases hag'
    | w3 s1 l1' s2 l2' h0 h1 hr hok' hfd h2 hr2 hag' h3 => cases h3
    | okFd s1 l1' s2 l2' h0 h1 hr hok' hfd h2 hr2 hag' h3 =>
      rw [r1] at hr; cases hr
      rw [r2 _ rfl] at hr2; cases hr2
      exact ⟨rfl, rfl⟩
  have hnofd : (connect (fun _ => true) uid false (csa.map Ev.chunk ++ tail)).2 = .ok ∧
      (connect (fun _ => true) uid false (csa.map Ev.chunk ++ tail)).1.script = tail := by
    have hrun := connect_run (fun _ => true) uid false (csa.map Ev.chunk ++ tail)
    generalize connect (fun _ => true) uid false _ = o' at hrun ⊢
    obtain ⟨st, r⟩ := o'
    simp only at hrun ⊢
    cases hrun with
    | w0 h0 => cases h0
    | w1 h0 h1 => cases h1
    | r1fail s1 e h0 h1 hr => rw [r1] at hr; cases hr
    | rejected1 s1 l1' h0 h1 hr hok' => rw [r1] at hr; cases hr; rw [hok] at hok'; cases hok'
    | w2 s1 l1' h0 h1 hr hok' h2 => cases h2
    | okNoFd s1 l1' h0 h1 hr hok' hfd h2 => rw [r1] at hr; cases hr; exact ⟨rfl, rfl⟩
    | r2fail s1 l1' s2 e h0 h1 hr hok' hfd h2 hr2 => cases hfd
    | rejected2 s1 l1' s2 l2' h0 h1 hr hok' hfd h2 hr2 hag' => cases hfd
    | w3 s1 l1' s2 l2' h0 h1 hr hok' hfd h2 hr2 hag' h3 => cases hfd
    | okFd s1 l1' s2 l2' h0 h1 hr hok' hfd h2 hr2 hag' h3 => cases hfd
  exact ⟨hfd.1, hfd.2, hnofd.1, hnofd.2⟩

/-! ## non-vacuity and the pipelining observation -/

section Examples


-- addresses
example : parseAddr (fun p => p == "/run/user/1000/bus".toList)
    "unix:guid=00ff,path=/run/user/1000/bus,abstract=zz,path=/other".toList =
    .path "/run/user/1000/bus".toList := by decide +kernel
example : parseAddr (fun _ => false) "unix:abstract=/tmp/dbus-Xy,guid=1".toList =
    .abstract "/tmp/dbus-Xy".toList := by decide +kernel
example : parseAddr (fun _ => true) "unix:guid=1,novalue,path=/x".toList = .errNotSupported := by
  decide +kernel
example : parseAddr (fun _ => false) "unix:path=/x,abstract=a".toList = .errPathMissing "/x".toList := by
  decide +kernel
example : parseAddr (fun _ => true) "tcp:host=localhost,port=1".toList = .errNotSupported := by
  decide +kernel
example : parseAddr (fun _ => true) "unix".toList = .errNoAddress := by decide +kernel

-- uid
example : getUidAsHex 1000 = some "31303030".toList := by decide +kernel
example : getUidAsHex 0 = some "30".toList := by decide +kernel
example : getUidAsHex 4294967294 = some "34323934393637323934".toList := by decide +kernel

-- a complete handshake whose replies arrive in pieces (`scriptGood`); the message bytes that follow stay in
-- the script

example :
    (connect allOk 1000 true scriptGood).2 = .ok ∧
    (connect allOk 1000 true scriptGood).1.script = [.chunk (bytesOf "l...")] ∧
    (connect allOk 1000 true scriptGood).1.written =
      [[0], bytesOf "AUTH EXTERNAL 31303030\r\n", bytesOf "NEGOTIATE_UNIX_FD\r\n", bytesOf "BEGIN\r\n"] ∧
    (connect allOk 1000 true scriptGood).1.reads = 4 ∧
    (connect allOk 1000 true scriptGood).1.replies =
      [⟨bytesOf "OK 1234", []⟩, ⟨bytesOf "AGREE_UNIX_FD", []⟩] := by decide +kernel

-- rejection: nothing after the AUTH line
example :
    (connect allOk 0 true [.chunk (bytesOf "REJECTED EXTERNAL\r\n"), .chunk (bytesOf "OK\r\n")]).2 = .authFailed ∧
    (connect allOk 0 true [.chunk (bytesOf "REJECTED EXTERNAL\r\n"), .chunk (bytesOf "OK\r\n")]).1.written =
      [[0], bytesOf "AUTH EXTERNAL 30\r\n"] := by decide +kernel

-- the peer closes in the middle of the reply / the script just ends / a read error / a non-UTF-8 line
example : (connect allOk 0 false [.chunk (bytesOf "O"), .eof]).2 = .fail .eof := by decide +kernel
example : (connect allOk 0 false [.chunk (bytesOf "OK")]).2 = .fail .eof ∧
    (connect allOk 0 false [.chunk (bytesOf "OK")]).1.reads = 2 := by decide +kernel
example : (connect allOk 0 true [.chunk (bytesOf "OK\r\n"), .err]).2 = .fail .ioOther := by decide +kernel
example : (connect allOk 0 false [.chunk [0x4f, 0x4b, 0xff, 13, 10]]).2 = .fail .invalidData := by
  decide +kernel
-- a failing write (EPIPE) of BEGIN
example : (connect (fun k => k != 2) 0 false [.chunk (bytesOf "OK\r\n")]).2 = .fail .ioOther ∧
    beginLine ∉ (connect (fun k => k != 2) 0 false [.chunk (bytesOf "OK\r\n")]).1.written := by
  decide +kernel

/-- OBSERVATION (real behaviour of `auth.rs`): a server that pipelines both replies into one read. The bytes
    behind the first CRLF are dropped with the per-step `read_buf`, so the client, after sending
    NEGOTIATE_UNIX_FD, waits for a reply that it has already thrown away: with the script ending here the
    model reports eof; a real server that keeps the socket open makes the client block forever. -/
example :
    (connect allOk 0 true scriptPipelined).2 = .fail .eof ∧
    (connect allOk 0 true scriptPipelined).1.written =
      [[0], bytesOf "AUTH EXTERNAL 30\r\n", bytesOf "NEGOTIATE_UNIX_FD\r\n"] ∧
    (connect allOk 0 true scriptPipelined).1.replies = [⟨bytesOf "OK 1234", bytesOf "AGREE_UNIX_FD\r\n"⟩] ∧
    (connect allOk 0 true scriptPipelined).1.reads = 2 := by decide +kernel

/-- the same bytes with the CRLF of the first reply ending a read: success. So the outcome does depend on the
    chunking once a read carries bytes beyond a CRLF — the hypothesis of `chunking_irrelevant` is needed. -/
example :
    (connect allOk 0 true [.chunk (bytesOf "OK 1234\r\n"), .chunk (bytesOf "AGREE_UNIX_FD\r\n")]).2 = .ok := by
  decide +kernel

/-- bytes behind the last reply's CRLF in the same read (here the start of a message) are consumed and lost -/
example :
    (connect allOk 0 false scriptGlued).2 = .ok ∧
    (connect allOk 0 false scriptGlued).1.script = [.chunk (bytesOf "rest")] ∧
    (connect allOk 0 false scriptGlued).1.replies = [⟨bytesOf "OK", bytesOf "l..."⟩] := by decide +kernel

-- two chunkings of the same stream are related by `SameStream`
example : SameStream 2
    [.chunk (bytesOf "OK\r\n"), .chunk (bytesOf "AGREE_UNIX_FD\r\n"), .chunk [1, 2, 3]]
    [.chunk (bytesOf "O"), .chunk (bytesOf "K\r"), .chunk (bytesOf "\n"), .chunk (bytesOf "AGREE_UNIX_FD\r\n")] := by
  refine .line 1 (bytesOf "OK") [.chunk (bytesOf "OK\r\n")]
    [.chunk (bytesOf "O"), .chunk (bytesOf "K\r"), .chunk (bytesOf "\n")]
    [.chunk (bytesOf "AGREE_UNIX_FD\r\n"), .chunk [1, 2, 3]] [.chunk (bytesOf "AGREE_UNIX_FD\r\n")]
    (by decide +kernel)
    ⟨[bytesOf "OK\r\n"], rfl, by decide +kernel, by decide +kernel⟩
    ⟨[bytesOf "O", bytesOf "K\r", bytesOf "\n"], rfl, by decide +kernel, by decide +kernel⟩ ?_
  exact .line 0 (bytesOf "AGREE_UNIX_FD") [.chunk (bytesOf "AGREE_UNIX_FD\r\n")]
    [.chunk (bytesOf "AGREE_UNIX_FD\r\n")] [.chunk [1, 2, 3]] [] (by decide +kernel)
    ⟨[bytesOf "AGREE_UNIX_FD\r\n"], rfl, by decide +kernel, by decide +kernel⟩
    ⟨[bytesOf "AGREE_UNIX_FD\r\n"], rfl, by decide +kernel, by decide +kernel⟩ (.zero _ _)

end Examples

end Rustbus.Auth

#print axioms Rustbus.Auth.addr_resolves_iff
#print axioms Rustbus.Auth.addr_unix_ok
#print axioms Rustbus.Auth.addr_unix_abstract_ok
#print axioms Rustbus.Auth.addr_path_iff
#print axioms Rustbus.Auth.addr_abstract_iff
#print axioms Rustbus.Auth.addr_errors
#print axioms Rustbus.Auth.session_bus_path
#print axioms Rustbus.Auth.uid_hex
#print axioms Rustbus.Auth.uid_hex_is_hex_of_decimal
#print axioms Rustbus.Auth.auth_trace
#print axioms Rustbus.Auth.success_only_on_ok
#print axioms Rustbus.Auth.no_begin_after_reject
#print axioms Rustbus.Auth.terminates
#print axioms Rustbus.Auth.reads_nothing_after_last_reply
#print axioms Rustbus.Auth.chunking_irrelevant
#print axioms Rustbus.Auth.messages_untouched
