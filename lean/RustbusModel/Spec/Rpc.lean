import RustbusModel.Model.Rpc
/-!
Vocabulary for stating C14, written from the property text:

* the hypotheses on the arrivals of a history (`UniqueIds`, `WellFormed`, `DistinctReplySerials`);
* what a history's trace DELIVERED (`events`, `handed`, `handedTo`) and what `refill_all` RETURNED;
* the abstract queues as functions of the arrivals CONSUMED so far (read from the socket):
  accepted signals in arrival order, accepted calls in arrival order, the partial map from reply
  serial to the accepted reply/error, and the unknown-method replies owed for rejected calls;
* `Refines`: the relation between the concrete `RpcConn` state and those abstract queues.
-/
namespace Rustbus.Rpc

def isSignal (m : Msg) : Bool := match m.typ with | .signal => true | _ => false
def isCall (m : Msg) : Bool := match m.typ with | .call => true | _ => false
/-- method return or error: the two kinds that answer a call -/
def isResp (m : Msg) : Bool := match m.typ with | .reply => true | .error => true | _ => false

def accSignal (m : Msg) : Bool := m.accepted && isSignal m
def accCall (m : Msg) : Bool := m.accepted && isCall m
def accResp (m : Msg) : Bool := m.accepted && isResp m
def rejCall (m : Msg) : Bool := !m.accepted && isCall m

/-! ### hypotheses on the arrivals -/

/-- the tracking tags really identify arrivals -/
def UniqueIds (l : List Msg) : Prop := (l.map (·.id)).Nodup

/-- what header validation (C06) guarantees for every message that `get_next_message` returns:
    replies and errors carry REPLY_SERIAL -/
def WellFormed (l : List Msg) : Prop := ∀ m ∈ l, isResp m = true → m.replySerial ≠ none

/-- "distinct reply serials": no two replies/errors of the history answer the same serial
    (`HashMap::insert` would let the later one replace the earlier one) -/
def DistinctReplySerials (l : List Msg) : Prop :=
  l.Pairwise (fun a b => isResp a = true → isResp b = true → a.replySerial ≠ b.replySerial)

/-- the messages the peer wrote during a history, in order -/
def arrivals : List Op → List Msg
  | [] => []
  | .arrive m :: ops => m :: arrivals ops
  | _ :: ops => arrivals ops

/-! ### what was delivered (functions of the trace) -/

def consumerOf : Op → Option Consumer
  | .tryResponse s => some (.response s)
  | .waitResponse s => some (.response s)
  | .trySignal => some .signal
  | .waitSignal => some .signal
  | .tryCall => some .call
  | .waitCall => some .call
  | _ => none

def msgOf : Obs → Option Msg
  | .tried (some m) => some m
  | .got m => some m
  | _ => none

/-- the message handed out by one operation, with the consumer it was handed to -/
def deliveredOf (e : Op × Obs) : List (Consumer × Msg) :=
  match consumerOf e.1, msgOf e.2 with
  | some k, some m => [(k, m)]
  | _, _ => []

/-- the error replies one operation returned to the caller (`refill_all`) -/
def returnedOf (e : Op × Obs) : List ErrReply :=
  match e.2 with
  | .drained errs => errs
  | _ => []

/-- every delivery of the history, in the order it happened -/
def events (tr : List (Op × Obs)) : List (Consumer × Msg) := tr.flatMap deliveredOf
/-- every message handed out by any try/wait operation, in order -/
def handed (tr : List (Op × Obs)) : List Msg := (events tr).map (·.2)
/-- all error replies returned by `refill_all` calls, in order -/
def returned (tr : List (Op × Obs)) : List ErrReply := tr.flatMap returnedOf

def isRespConsumer : Consumer → Bool
  | .response _ => true
  | _ => false

/-- the messages handed to one consumer, in order -/
def toConsumer (k : Consumer) (evs : List (Consumer × Msg)) : List Msg :=
  (evs.filter (fun e => e.1 == k)).map (·.2)
/-- the messages handed to `try_get_response`/`wait_response` callers (any serial) -/
def toResponders (evs : List (Consumer × Msg)) : List Msg :=
  (evs.filter (fun e => isRespConsumer e.1)).map (·.2)

def handedTo (k : Consumer) (tr : List (Op × Obs)) : List Msg := toConsumer k (events tr)

/-! ### the abstract queues (functions of the consumed arrivals) -/

/-- accepted signals in arrival order -/
def sigQueue (c : List Msg) : List Msg := c.filter accSignal
/-- accepted calls in arrival order -/
def callQueue (c : List Msg) : List Msg := c.filter accCall
/-- accepted replies/errors -/
def respSet (c : List Msg) : List Msg := c.filter accResp
/-- the partial map reply serial ↦ accepted reply/error -/
def respMap (c : List Msg) (s : Nat) : Option Msg :=
  c.find? (fun m => accResp m && m.replySerial == some s)
/-- the unknown-method replies owed: one per rejected call (a multiset; compared up to `Perm`) -/
def owed (c : List Msg) : List ErrReply := (c.filter rejCall).map unknownMethod

/-- everything still stored in the connection -/
def queued (st : State) : List Msg := st.signals ++ st.calls ++ st.responses.map (·.2)

/-- Abstraction relation: the concrete state `st`, after the arrivals `c` have been read from the
    socket, the deliveries `evs` have been made and the error replies `ret` have been returned by
    `refill_all`, represents the abstract queues of `c`:
    each abstract queue = what was delivered from it ++ what is still stored. -/
structure Refines (c : List Msg) (evs : List (Consumer × Msg)) (ret : List ErrReply) (st : State) : Prop where
  signals : sigQueue c = toConsumer .signal evs ++ st.signals
  calls : callQueue c = toConsumer .call evs ++ st.calls
  responses : (respSet c).Perm (toResponders evs ++ st.responses.map (·.2))
  keys : (st.responses.map (·.1)).Nodup
  keyed : ∀ p ∈ st.responses, p.2.replySerial = some p.1
  underSerial : ∀ e ∈ evs, ∀ s, e.1 = .response s → e.2.replySerial = some s
  errors : (owed c).Perm (st.sent ++ ret)

end Rustbus.Rpc
