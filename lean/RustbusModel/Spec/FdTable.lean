import RustbusModel.Model.FdTable
/-!
Vocabulary for stating C11, written from the property text:

* who refers to a cell (`refCount`: the `UnixFd` values alive in the caller's hands and in the
  descriptor lists of bodies / messages),
* the three states a descriptor created by the library can be in (`OwnedLive`, `TakenOut`,
  `ClosedOnce`),
* "everything has been dropped" (`AllDropped`).
-/
namespace Rustbus.FdTable

/-- references to cell `c` among the caller's handles -/
def hcount (hs : List (Option Nat)) (c : Nat) : Nat :=
  (hs.map (fun o => if o = some c then 1 else 0)).sum

/-- references to cell `c` in the descriptor lists of the bodies -/
def bcount (bs : List Body) (c : Nat) : Nat :=
  (bs.map (fun b => b.fds.count c)).sum

/-- the number of live `UnixFd` values that point to cell `c` -/
def refCount (s : State) (c : Nat) : Nat := hcount s.handles c + bcount s.bodies c

/-- cell `c` is alive (its `Arc` count is not zero), still has its descriptor, and that descriptor is `d` -/
def Owns (s : State) (c d : Nat) : Prop :=
  ∃ x, s.cells[c]? = some x ∧ 0 < x.refs ∧ x.taken = false ∧ x.fd = d

/-- `d` is open and owned by a cell that at least one live handle points to -/
def OwnedLive (s : State) (d : Nat) : Prop :=
  d ∈ keys s.open ∧ d ∉ s.user ∧ d ∉ s.takenFds ∧ d ∉ s.libClosed ∧
  ∃ c, Owns s c d ∧ 0 < refCount s c

/-- the ownership of `d` went to the caller through `take_raw_fd`: the library never closes it, no
    cell owns it any more, it is open exactly as long as the caller has not closed it -/
def TakenOut (s : State) (d : Nat) : Prop :=
  d ∈ s.takenFds ∧ d ∉ s.libClosed ∧ (d ∈ keys s.open ↔ d ∈ s.user) ∧ ¬ ∃ c, Owns s c d

/-- `d` has been closed by the library, exactly once, and nothing owns it -/
def ClosedOnce (s : State) (d : Nat) : Prop :=
  d ∉ keys s.open ∧ d ∉ s.takenFds ∧ s.libClosed.count d = 1 ∧ d ∉ s.user ∧ ¬ ∃ c, Owns s c d

/-- every handle, body and message has been dropped (or emptied) -/
def AllDropped (s : State) : Prop :=
  (∀ o, o ∈ s.handles → o = none) ∧ (∀ b, b ∈ s.bodies → b.fds = [])

end Rustbus.FdTable
