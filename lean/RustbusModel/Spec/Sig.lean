import RustbusModel.Model.Sig
/-!
The D-Bus signature grammar as a specification (independent of how rustbus parses):
a signature is the concatenation of the printed forms of well-formed types
(`Ty.toStr` *is* the grammar's production table: basic type codes, `a` + single, `a{` basic single `}`,
`(` single⁺ `)`, `v`), at most 255 characters, at most 32 nested arrays and 32 nested structs.
-/
namespace Rustbus.Spec.Sig
open Rustbus

mutual
/-- number of nested array type codes on the deepest path (a dict is an array of entries) -/
def arrayDepth : Ty → Nat
  | .base _ => 0
  | .variant => 0
  | .array e => arrayDepth e + 1
  | .dict _ v => arrayDepth v + 1
  | .struct fs => arrayDepthList fs
def arrayDepthList : List Ty → Nat
  | [] => 0
  | t :: ts => max (arrayDepth t) (arrayDepthList ts)
end

mutual
/-- number of nested open parentheses on the deepest path -/
def structDepth : Ty → Nat
  | .base _ => 0
  | .variant => 0
  | .array e => structDepth e
  | .dict _ v => structDepth v
  | .struct fs => structDepthList fs + 1
def structDepthList : List Ty → Nat
  | [] => 0
  | t :: ts => max (structDepth t) (structDepthList ts)
end

/-- `ts` is a valid list of single complete types -/
def ValidTypes (ts : List Ty) : Prop :=
  ∀ t ∈ ts, t.wf = true ∧ arrayDepth t ≤ 32 ∧ structDepth t ≤ 32

/-- `s` is a valid D-Bus signature denoting the type list `ts` -/
def Denotes (s : List Char) (ts : List Ty) : Prop :=
  s.length ≤ 255 ∧ s = Ty.listToStr ts ∧ ValidTypes ts

def Valid (s : List Char) : Prop := ∃ ts, Denotes s ts

end Rustbus.Spec.Sig
