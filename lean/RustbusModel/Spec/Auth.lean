import RustbusModel.Model.Auth
/-
Declarative vocabulary for C17, written from the property text (not from the code):
what it means for an address string to resolve to a result, what the hex encoding of the decimal uid is,
what a chunking of a byte string is and when two server scripts carry the same line-structured stream.
-/
namespace Rustbus.Auth

/-! ## addresses -/

/-- the pieces joined with a separator (inverse of splitting) -/
def joinWith (c : Char) : List (List Char) → List Char
  | [] => []
  | [p] => p
  | p :: q :: r => p ++ c :: joinWith c (q :: r)

/-- a `key=value` item whose key is neither `path` nor `abstract`: it is passed over -/
def Skipped (q : List Char) : Prop :=
  ∃ k v, q = k ++ '=' :: v ∧ '=' ∉ k ∧ k ≠ kPath ∧ k ≠ kAbstract

/-- the item that decides the result (`ex` = the file exists) -/
inductive Decides (ex : List Char → Bool) : List Char → AddrResult → Prop
  | path (p) : ex p = true → unixAddrNewOk p = true → Decides ex (kPath ++ '=' :: p) (.path p)
  | pathMissing (p) : ex p = false → Decides ex (kPath ++ '=' :: p) (.errPathMissing p)
  | pathIo (p) : ex p = true → unixAddrNewOk p = false → Decides ex (kPath ++ '=' :: p) .errIo
  | abstract (a) : unixAddrAbstractOk a = true → Decides ex (kAbstract ++ '=' :: a) (.abstract a)
  | abstractIo (a) : unixAddrAbstractOk a = false → Decides ex (kAbstract ++ '=' :: a) .errIo
  | noEq (q) : '=' ∉ q → Decides ex q .errNotSupported

/-- `Resolves ex s r`: the address string `s` resolves to `r`.
    * no ':' at all: no address;
    * a transport other than `unix`: not supported;
    * `unix:` followed by comma separated items: the FIRST item that is not a passed-over `key=value`
      decides; if every item is passed over: not supported. -/
inductive Resolves (ex : List Char → Bool) : List Char → AddrResult → Prop
  | noColon (s) : ':' ∉ s → Resolves ex s .errNoAddress
  | otherSystem (sys rest) : ':' ∉ sys → sys ≠ kUnix → Resolves ex (sys ++ ':' :: rest) .errNotSupported
  | decided (pre q post r) : (∀ x ∈ pre, Skipped x) → (∀ x ∈ pre ++ q :: post, ',' ∉ x) →
      Decides ex q r → Resolves ex (kUnix ++ ':' :: joinWith ',' (pre ++ q :: post)) r
  | nothing (ps) : ps ≠ [] → (∀ x ∈ ps, Skipped x ∧ ',' ∉ x) →
      Resolves ex (kUnix ++ ':' :: joinWith ',' ps) .errNotSupported

/-- `key=value` -/
def renderPair (kv : List Char × List Char) : List Char := kv.1 ++ '=' :: kv.2

/-! ## uid -/

def hexDigitLower (n : Nat) : Char :=
  if n < 10 then Char.ofNat (48 + n) else Char.ofNat (87 + n)

/-- lowercase hex encoding of a byte string, two digits per byte -/
def hexEncode (bs : List UInt8) : List Char :=
  bs.flatMap (fun b => [hexDigitLower (b.toNat / 16), hexDigitLower (b.toNat % 16)])

def hexVal (c : Char) : Option Nat :=
  if 48 ≤ c.toNat ∧ c.toNat ≤ 57 then some (c.toNat - 48)
  else if 97 ≤ c.toNat ∧ c.toNat ≤ 102 then some (c.toNat - 87)
  else none

def hexDecode : List Char → Option (List UInt8)
  | [] => some []
  | [_] => none
  | a :: b :: rest =>
    match hexVal a, hexVal b, hexDecode rest with
    | some x, some y, some r => some (UInt8.ofNat (16 * x + y) :: r)
    | _, _, _ => none

/-- the ASCII decimal representation of a number, as bytes -/
def decimalBytes (n : Nat) : List UInt8 := asciiBytes (Nat.toDigits 10 n)

/-- '3' followed by the digit, for every decimal digit of `uid`, most significant first -/
def uidHex (uid : Nat) : List Char := (Nat.toDigits 10 uid).flatMap (fun c => ['3', c])

/-! ## scripts -/

/-- `evs` delivers exactly the bytes `bs`, split into non-empty reads in some way -/
def Chunking (bs : List UInt8) (evs : List Ev) : Prop :=
  ∃ cs : List (List UInt8), evs = cs.map Ev.chunk ∧ cs.flatten = bs ∧ ∀ c ∈ cs, c ≠ []

/-- a read that ends a `read_message` with an error: end of script, `eof`, empty read or `err` -/
inductive Stops : List Ev → Fail → Prop
  | exhausted : Stops [] .eof
  | eof (s) : Stops (.eof :: s) .eof
  | empty (s) : Stops (.chunk [] :: s) .eof
  | err (s) : Stops (.err :: s) .ioOther

/-- one successful line read: the reads `cs` were taken from the front of the script; together they hold
    the line `l`, its CRLF (the first one in the stream) and `extra`; no read happened once a complete
    line was buffered; nothing else of the state changed -/
structure LineRead (before after : St) (cs : List (List UInt8)) (l extra : List UInt8) : Prop where
  nonempty : ∀ c ∈ cs, c ≠ []
  script : before.script = cs.map Ev.chunk ++ after.script
  bytes : cs.flatten = l ++ crlf ++ extra
  first : hasLineEnding (l ++ [13]) = false
  reads : after.reads = before.reads + cs.length
  consumed : after.consumed = before.consumed + cs.flatten.length
  replies : after.replies = before.replies ++ [⟨l, extra⟩]
  lazy : ∀ cs', cs' <+: cs → cs' ≠ cs → hasLineEnding cs'.flatten = false
  written : after.written = before.written
  nwrites : after.nwrites = before.nwrites

/-- a line read that failed because the stream stopped (`f` = eof / io error) after the reads `cs`,
    which hold no complete line -/
structure StopRead (before after : St) (cs : List (List UInt8)) (f : Fail) : Prop where
  nonempty : ∀ c ∈ cs, c ≠ []
  stop : ∃ stp, Stops stp f ∧ before.script = cs.map Ev.chunk ++ stp ∧ after.script = stp.tail
  noLine : hasLineEnding cs.flatten = false
  reads : after.reads = before.reads + cs.length + 1
  consumed : after.consumed = before.consumed + cs.flatten.length
  replies : after.replies = before.replies
  written : after.written = before.written
  nwrites : after.nwrites = before.nwrites

/-- `SameStream n s t`: as far as the first `n` reply lines are concerned, the scripts `s` and `t` carry
    the same server behaviour and differ only in how the bytes are split into reads. Each reply is a
    CRLF-free line followed by CRLF whose CRLF ends a read (no bytes of a further reply behind it), or the
    stream stops (close / error) after a CRLF-free partial line. After `n` lines anything goes. -/
inductive SameStream : Nat → List Ev → List Ev → Prop
  | zero (s t) : SameStream 0 s t
  | line (n l a b s t) : hasLineEnding l = false → Chunking (l ++ crlf) a → Chunking (l ++ crlf) b →
      SameStream n s t → SameStream (n + 1) (a ++ s) (b ++ t)
  | stop (n p a b s t f) : hasLineEnding p = false → Chunking p a → Chunking p b →
      Stops s f → Stops t f → SameStream (n + 1) (a ++ s) (b ++ t)

/-- the complete conversation of a successful handshake, one entry per write -/
def expectedMsgs (uid : Nat) (fd : Bool) : List (List UInt8) :=
  msgNul :: authLine (uidHex uid) :: ((if fd then [negLine] else []) ++ [beginLine])

/-! ## data for the non-vacuity examples in Props/C17.lean -/

def bytesOf (s : String) : List UInt8 := asciiBytes s.toList
def allOk : Nat → Bool := fun _ => true

/-- both replies arrive in pieces, then the first bytes of a message -/
def scriptGood : List Ev :=
  [.chunk (bytesOf "OK 12"), .chunk (bytesOf "34\r"), .chunk (bytesOf "\n"),
   .chunk (bytesOf "AGREE_UNIX_FD\r\n"), .chunk (bytesOf "l...")]

/-- a server that sends both replies at once -/
def scriptPipelined : List Ev := [.chunk (bytesOf "OK 1234\r\nAGREE_UNIX_FD\r\n")]

/-- a server whose first message bytes arrive in the same read as the last reply -/
def scriptGlued : List Ev := [.chunk (bytesOf "OK\r\nl..."), .chunk (bytesOf "rest")]

end Rustbus.Auth
