import RustbusModel.Model.Dispatch
/-!
Specification vocabulary for C19, written from the property text (not from the code):

* `Segments s segs`: `segs` are the '/'-separated segments of the string `s`;
* `PartOf seg part`: how one pattern segment is read (named / wildcard / literal);
* `Matches pattern path binds`: the pattern matches the path segment by segment: literal segments
  equal, named segments captured under their name, a wildcard matching one segment or, as last
  segment, any non-empty tail. `binds` lists the captures from left to right;
* `lastBound binds name`: the value a name ends up with (a repeated name keeps the last capture);
* `routeOf pat table` / `lastAdd adds pat`: the handler registered for a pattern in a table / most
  recently registered in a list of registrations.

Only the abstract syntax `PathPart` (literal / named / wildcard) is shared with the model.
-/
namespace Rustbus.Dispatch.Spec
open Rustbus.Dispatch

/-- `a/b/c`: the segments joined by single slashes (no slash for fewer than two segments) -/
def joinSlash : List Seg → List Char
  | [] => []
  | [a] => a
  | a :: b :: r => a ++ '/' :: joinSlash (b :: r)

/-- `segs` is the splitting of `s` at its slashes: at least one segment, none contains a slash,
    and joining them with slashes gives `s` back -/
def Segments (s : List Char) (segs : List Seg) : Prop :=
  segs ≠ [] ∧ (∀ g ∈ segs, '/' ∉ g) ∧ joinSlash segs = s

/-- how a pattern segment is read -/
inductive PartOf : Seg → PathPart → Prop
  | named (r : Seg) : PartOf (':' :: r) (.as (':' :: r))
  | wild : PartOf ['*'] .all
  | literal (s : Seg) : s.head? ≠ some ':' → s ≠ ['*'] → PartOf s (.exact s)

inductive Matches : List PathPart → List Seg → List (Seg × Seg) → Prop
  | done : Matches [] [] []
  | literal (s : Seg) {ps : List PathPart} {ss : List Seg} {b : List (Seg × Seg)} :
      Matches ps ss b → Matches (.exact s :: ps) (s :: ss) b
  | named (name s : Seg) {ps : List PathPart} {ss : List Seg} {b : List (Seg × Seg)} :
      Matches ps ss b → Matches (.as name :: ps) (s :: ss) ((name, s) :: b)
  | wildOne (s : Seg) {ps : List PathPart} {ss : List Seg} {b : List (Seg × Seg)} :
      Matches ps ss b → Matches (.all :: ps) (s :: ss) b
  | wildTail (s : Seg) (t : List Seg) : t ≠ [] → Matches [.all] (s :: t) []

/-- first entry for key `k` of an association list -/
def assocGet (k : Seg) : List (Seg × Seg) → Option Seg
  | [] => none
  | (a, b) :: r => if a = k then some b else assocGet k r

/-- the last capture made under `name` -/
def lastBound (binds : List (Seg × Seg)) (name : Seg) : Option Seg :=
  assocGet name binds.reverse

/-- the handler registered for `pat` in a table -/
def routeOf {H : Type} (pat : List PathPart) : List (List PathPart × H) → Option H
  | [] => none
  | (p, h) :: r => if p = pat then some h else routeOf pat r

/-- the handler most recently registered for `pat` in a list of registrations -/
def lastAdd {H : Type} (adds : List (List PathPart × H)) (pat : List PathPart) : Option H :=
  routeOf pat adds.reverse

/-- the table is a map: no pattern is registered twice (the `HashMap` invariant) -/
def KeysNodup {H : Type} (rs : List (List PathPart × H)) : Prop := (rs.map (·.1)).Nodup

/-- the registrations of one loop iteration that count: those made by an invoked handler that
    returned `Ok`; nothing for a handler that returned `Err` -/
def addsOf {H : Type} (ev : Event H) (out : StepOut H) : List (List PathPart × H) :=
  out.invoked.flatMap (fun i =>
    match (ev.behave i.1 i.2).result with
    | .err => []
    | _ => (ev.behave i.1 i.2).added.map (fun a => (patternNew a.1, a.2)))

/-- all counting registrations of a history, oldest first -/
def okAdds {H : Type} : List (Event H) → List (StepOut H) → List (List PathPart × H)
  | ev :: evs, out :: outs => addsOf ev out ++ okAdds evs outs
  | _, _ => []

/-- `R` holds between the i-th message and the i-th loop iteration, for every i, and there are as
    many iterations as messages -/
inductive AllPairs {α β : Type} (R : α → β → Prop) : List α → List β → Prop
  | nil : AllPairs R [] []
  | cons {a : α} {b : β} {as : List α} {bs : List β} :
      R a b → AllPairs R as bs → AllPairs R (a :: as) (b :: bs)

/-- what the property demands of one loop iteration: exactly one handler was invoked and,
    depending on what it returned, exactly one reply was written (the handler's own, or an empty
    method return carrying the call's serial and addressed to its sender), or - handler error -
    nothing was written and the loop ended. A failed send (connection error) writes nothing and
    ends the loop as well. -/
def ReplyOk {H : Type} (ev : Event H) (out : StepOut H) : Prop :=
  ∃ who caps, out.invoked = [(who, caps)] ∧
    match (ev.behave who caps).result with
    | .err => out.written = [] ∧ out.ended = .handlerErr
    | .reply r =>
      if ev.sendOk then out.written = [r] ∧ out.ended = .continues
      else out.written = [] ∧ out.ended = .sendErr
    | .empty =>
      if ev.sendOk then
        ∃ r, out.written = [r] ∧ r.replySerial = ev.msg.hdr.serial ∧
          r.destination = ev.msg.hdr.sender ∧ r.isError = false ∧ out.ended = .continues
      else out.written = [] ∧ out.ended = .sendErr

end Rustbus.Dispatch.Spec
