import RustbusModel.Model.Wire
/-!
Vocabulary for stating the wire theorems: nesting depth of a value, descriptor bound.
-/
namespace Rustbus.Spec.Wire
open Rustbus

mutual
/-- container levels a value of type `t` needs: one per array, struct, dict entry (a dict = 2) and
    variant on the deepest path (the count the reference implementation limits to 64);
    an empty array or dict needs only its own level(s) -/
def depthOf : Ty → Val → Nat
  | .base _, _ => 0
  | .array e, .arr vs => 1 + depthOfList e vs
  | .dict _ vt, .arr es => 2 + depthOfEntries vt es
  | .struct fs, .struct vs => 1 + depthOfFields fs vs
  | .variant, .variant t v => 1 + depthOf t v
  | _, _ => 0
def depthOfList (e : Ty) : List Val → Nat
  | [] => 0
  | v :: vs => max (depthOf e v) (depthOfList e vs)
def depthOfEntries (vt : Ty) : List Val → Nat
  | [] => 0
  | .struct [_, vv] :: rest => max (depthOf vt vv) (depthOfEntries vt rest)
  | _ :: rest => depthOfEntries vt rest
def depthOfFields : List Ty → List Val → Nat
  | t :: ts, v :: vs => max (depthOf t v) (depthOfFields ts vs)
  | _, _ => 0
end

mutual
/-- every descriptor index in the value is below `c` -/
def fdsBelow (c : Nat) : Ty → Val → Bool
  | .base .unixfd, .num n => decide (n < c)
  | .base _, _ => true
  | .array e, .arr vs => fdsBelowList c e vs
  | .dict k vt, .arr es => fdsBelowEntries c k vt es
  | .struct fs, .struct vs => fdsBelowFields c fs vs
  | .variant, .variant t v => fdsBelow c t v
  | _, _ => true
def fdsBelowList (c : Nat) (e : Ty) : List Val → Bool
  | [] => true
  | v :: vs => fdsBelow c e v && fdsBelowList c e vs
def fdsBelowEntries (c : Nat) (k : Base) (vt : Ty) : List Val → Bool
  | [] => true
  | .struct [kv, vv] :: rest => fdsBelow c (.base k) kv && fdsBelow c vt vv && fdsBelowEntries c k vt rest
  | _ :: rest => fdsBelowEntries c k vt rest
def fdsBelowFields (c : Nat) : List Ty → List Val → Bool
  | t :: ts, v :: vs => fdsBelow c t v && fdsBelowFields c ts vs
  | _, _ => true
end

def fdsOk (nfds : Option Nat) (t : Ty) (v : Val) : Bool :=
  match nfds with
  | none => true
  | some c => fdsBelow c t v

end Rustbus.Spec.Wire

namespace Rustbus.Spec.Wire
open Rustbus Rustbus.Wire

mutual
/-- `v` is a value of type `t` whose leaves have an encoding at all: integers within their width,
    booleans 0/1, strings valid UTF-8 without NUL (and shorter than 2^32), object paths and signatures
    valid, no empty struct, dict entries are (key, value) pairs, variant payload types valid single
    signatures. (Sizes of arrays are a separate matter: see `enc`'s 64 MiB test.) -/
def wellTyped : Ty → Val → Bool
  | .base b, .num n => b.fixedSize.isSome && decide (n < b.bound)
  | .base b, .str bs => b.fixedSize.isNone && strOk b bs && decide (bs.length < 256 ^ 4)
  | .array e, .arr vs => wellTypedList e vs
  | .dict k vt, .arr es => wellTypedEntries k vt es
  | .struct fs, .struct vs => !fs.isEmpty && wellTypedFields fs vs
  | .variant, .variant t v => variantTypeOk t && wellTyped t v
  | _, _ => false
def wellTypedList (e : Ty) : List Val → Bool
  | [] => true
  | v :: vs => wellTyped e v && wellTypedList e vs
def wellTypedEntries (k : Base) (vt : Ty) : List Val → Bool
  | [] => true
  | .struct [kv, vv] :: rest => wellTyped (.base k) kv && wellTyped vt vv && wellTypedEntries k vt rest
  | _ :: _ => false
def wellTypedFields : List Ty → List Val → Bool
  | [], [] => true
  | t :: ts, v :: vs => wellTyped t v && wellTypedFields ts vs
  | _, _ => false
end

end Rustbus.Spec.Wire
