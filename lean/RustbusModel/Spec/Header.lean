import RustbusModel.Model.Header
import RustbusModel.Spec.Wire
/-!
Declarative description of message headers, in terms of the generic encoding `Wire.enc`:
the header field array is literally a value of type `a(yv)`.
-/
namespace Rustbus.Spec.Header
open Rustbus Rustbus.Bytes Rustbus.Wire Rustbus.Header Rustbus.Spec.Wire

/-- one element of the field array: code, type of the variant, value of the variant -/
abbrev Entry := Nat × Ty × Val

def fieldArrayTy : Ty := .array (.struct [.base .byte, .variant])

def entryVal (e : Entry) : Val := .struct [.num e.1, .variant e.2.1 e.2.2]

/-- What an entry means. `some (some f)`: a known field with its prescribed value type and a valid
    value; `some none`: an unknown code (≥ 10) carrying any value nested at most 64 deep — ignored;
    `none`: not allowed (code 0, or a known code with the wrong type or an invalid value). -/
def entryField (e : Entry) : Option (Option Field) :=
  match e with
  | (1, .base .objpath, .str s) => some (some (.path s))
  | (2, .base .string, .str s) => if nameOk 2 s then some (some (.interface s)) else none
  | (3, .base .string, .str s) => if nameOk 3 s then some (some (.member s)) else none
  | (4, .base .string, .str s) => if nameOk 4 s then some (some (.errorName s)) else none
  | (5, .base .u32, .num n) => if n = 0 then none else some (some (.replySerial n))
  | (6, .base .string, .str s) => if nameOk 6 s then some (some (.destination s)) else none
  | (7, .base .string, .str s) => if nameOk 7 s then some (some (.sender s)) else none
  | (8, .base .signature, .str s) => some (some (.signature s))
  | (9, .base .u32, .num n) => some (some (.unixFds n))
  | (c, t, v) => if 10 ≤ c ∧ depthOf t v ≤ maxDepth then some none else none

/-- the known fields denoted by an entry list, in order; `none` if some entry is not allowed -/
def entriesFields : List Entry → Option (List Field)
  | [] => some []
  | e :: es =>
    match entryField e, entriesFields es with
    | some (some f), some fs => some (f :: fs)
    | some none, some fs => some fs
    | _, _ => none

/-- the 12 fixed bytes -/
def fixedBytes (fx : Fixed) : List UInt8 :=
  [if fx.bo = .le then 108 else 66, UInt8.ofNat fx.typ, UInt8.ofNat fx.flags, 1] ++
    (bytesOf fx.bo 4 fx.bodyLen ++ bytesOf fx.bo 4 fx.serial)

def fixedOk (fx : Fixed) : Prop :=
  1 ≤ fx.typ ∧ fx.typ ≤ 4 ∧ fx.flags < 256 ∧ fx.bodyLen < 256 ^ 4 ∧ 0 < fx.serial ∧ fx.serial < 256 ^ 4

/-- `buf` starts with a spec-valid header: valid fixed part; the bytes from offset 12 up to `used` are the
    `a(yv)` encoding of an entry list whose entries are all allowed; the known fields it denotes are `fs`,
    none of them twice, and those required for the message type are present. -/
def ValidHeader (buf : List UInt8) (fx : Fixed) (fs : List Field) (used : Nat) : Prop :=
  fixedOk fx ∧ 16 ≤ used ∧ used ≤ buf.length ∧ slice buf 0 12 = fixedBytes fx ∧
  ∃ es : List Entry,
    enc fx.bo 12 fieldArrayTy (.arr (es.map entryVal)) = some (slice buf 12 (used - 12)) ∧
    entriesFields es = some fs ∧ fieldsOk fx.typ fs = true

/-- the entries `marshal::marshal` writes for a message, in its order -/
def msgEntries (m : Msg) : List Entry :=
  (match m.replySerial with | some n => [(5, .base .u32, .num n)] | none => []) ++
  (match m.interface with | some s => [(2, .base .string, .str s)] | none => []) ++
  (match m.destination with | some s => [(6, .base .string, .str s)] | none => []) ++
  (match m.sender with | some s => [(7, .base .string, .str s)] | none => []) ++
  (match m.member with | some s => [(3, .base .string, .str s)] | none => []) ++
  (match m.path with | some s => [(1, .base .objpath, .str s)] | none => []) ++
  (match m.errorName with | some s => [(4, .base .string, .str s)] | none => []) ++
  (if m.body.isEmpty then [] else [(8, .base .signature, .str m.bodySig)]) ++
  (if m.nfds = 0 then [] else [(9, .base .u32, .num m.nfds)])

/-- numeric side conditions under which a message is representable at all -/
def msgInRange (m : Msg) (serial : Nat) : Prop :=
  m.flags < 256 ∧ serial < 256 ^ 4 ∧ m.body.length < 256 ^ 4 ∧ m.nfds < 256 ^ 4 ∧
  (∀ n, m.replySerial = some n → n < 256 ^ 4)

end Rustbus.Spec.Header
